"""C03 — intermediate results are never released early and never leaked."""
from __future__ import annotations

from vf import core
from vf.core import Sub, Violation, ensure
from vf.graphs import flat_request, node_key
from vf.oracle.schedmodel import Model, explore
from vf.props import _schedcommon as sc

PROPERTY = "C03"
LEVEL = "exploration"
RULE = (
    "same engine and bounds as C01 on the in-process schedulers (sync, controlled executor with ALL completion "
    "interleavings, threaded pools). The scheduler's live state dict is snapshotted in every callback. Predicates: "
    "(i) at pretask(k) all dependencies of k are held; (ii) after every completion every finished result with an "
    "unfinished needed dependent is held; (iii) requested keys never appear in `released` and stay held once computed; "
    "(iv) on success the held set equals the requested keys and everything else computed was released; (v) lock-step "
    "agreement of held/released sets with an independent abstract model after every completion. The model itself is "
    "explored exhaustively (all fire/complete interleavings, workers 1-3) for every enumerated graph x request "
    "(counters model_states/model_transitions). Non-trivial: some intermediate result has >=2 dependents and a requested "
    "key is also a dependency of another needed task."
)
ASSUMPTIONS = [
    "dependencies/needed sets from the reference evaluator; the abstract model (vf/oracle/schedmodel.py) is written from the property statement",
    "state snapshots are taken inside pretask/posttask/finish callbacks (public API), i.e. between scheduler transitions",
]
TECHNIQUE = "state invariants over snapshotted scheduler state under exhaustively enumerated completion interleavings, plus lock-step comparison with an exhaustively explored abstract model"


def _facts(case, ref):
    g = case["graph"]
    n = len(g["nodes"])
    keyof = {node_key(g, i): i for i in range(n)}
    need = ref.needed(case["request"])
    requested = set(flat_request(case["request"]))
    deps = {i: ref.refs(i) for i in range(n)}
    return g, n, keyof, need, requested, deps


def predicate(case, ref, out):
    g, n, keyof, need, requested, deps = _facts(case, ref)
    kind = case["sched"]["kind"]
    if out.deadlock:
        raise Violation(f"scheduler deadlocked: {out.raised}", "deadlock", sched=kind)
    if out.raised is not None:
        raise Violation(f"scheduler raised {type(out.raised).__name__}: {out.raised}", "raises:" + type(out.raised).__name__, sched=kind)
    key = lambda i: node_key(g, i)  # noqa: E731
    reqkeys = {key(i) for i in requested}
    needkeys = {key(i) for i in need}
    finished = set()
    model = None
    dependents = {i: {j for j in need if i in deps[j]} for i in need}
    computed_requested = set()
    for ev, k, cache, released, extra in out.events:
        if ev == "start_state":
            # data available before any task ran
            initial = {keyof[c] for c in cache if c in keyof}
            finished |= initial
            model = Model(deps, need, requested, initial_cache=initial)
            continue
        if cache is None:
            continue
        ensure(not (released & reqkeys), f"requested key(s) {released & reqkeys} in released at {ev}({k!r})", "requested-released", sched=kind)
        for c in computed_requested:
            ensure(c in cache, f"requested key {c!r} dropped from cache at {ev}({k!r})", "requested-dropped", sched=kind)
        if ev == "pretask":
            i = keyof[k]
            for d in deps[i]:
                ensure(key(d) in cache, f"pretask({k!r}): dependency {key(d)!r} not in cache {sorted(map(str, cache))}", "dependency-released-early", sched=kind)
        elif ev == "posttask":
            i = keyof[k]
            finished.add(i)
            if i in requested:
                computed_requested.add(k)
            for f in finished:
                if f in need and any(d not in finished for d in dependents[f]):
                    ensure(key(f) in cache, f"after posttask({k!r}): {key(f)!r} no longer held but {[key(d) for d in dependents[f] if d not in finished]} still need it", "released-early", sched=kind)
            if model is not None:
                model.complete(i)
                mc = {key(x) for x in model.cache}
                mr = {key(x) for x in model.released}
                ensure(set(cache) == mc, f"after posttask({k!r}): cache {sorted(map(str, cache))} != model {sorted(map(str, mc))}", "cache-differs-from-model", sched=kind)
                ensure(set(released) == mr, f"after posttask({k!r}): released {sorted(map(str, released))} != model {sorted(map(str, mr))}", "released-differs-from-model", sched=kind)
                core.count("trace_steps_validated_against_model")
        elif ev == "finish":
            ensure(set(cache) == reqkeys, f"at finish: cache holds {sorted(map(str, cache))}, requested {sorted(map(str, reqkeys))}", "leak-or-missing-at-finish", sched=kind)
            ensure(set(released) == needkeys - reqkeys, f"at finish: released {sorted(map(str, released))} != needed-requested {sorted(map(str, needkeys - reqkeys))}", "released-set-at-finish", sched=kind)
    core.count("traces_validated_against_model")


def check(case):
    sc.for_each_schedule(case, predicate)
    if case.get("explore_model"):
        # exhaustive exploration of the abstract model for this graph x request
        from vf.graphs import RefEval

        ref = RefEval(case["graph"])
        g, n, keyof, need, requested, deps = _facts(case, ref)
        initial = {i for i in need if not ref.refs(i) and "call" not in g["nodes"][i]["body"] and "quote" not in g["nodes"][i]["body"] and "dict" not in g["nodes"][i]["body"]}
        for w in (1, 2, 3):
            try:
                s, t = explore(Model(deps, need, requested, initial_cache=initial), w)
            except AssertionError as e:
                raise RuntimeError(f"abstract model inconsistent: {e}")
            core.count("model_states", s)
            core.count("model_transitions", t)


def nontrivial(case):
    from vf.graphs import RefEval

    ref = RefEval(case["graph"])
    g, n, keyof, need, requested, deps = _facts(case, ref)
    dependents = {i: {j for j in need if i in deps[j]} for i in need}
    multi = any(len(v) >= 2 and i not in requested for i, v in dependents.items())
    req_is_dep = any(dependents[i] for i in requested if i in dependents)
    return multi and req_is_dep


def cases(tier):
    for c in sc.enum_cases(tier):
        if c["sched"]["kind"] == "sync":
            c["explore_model"] = True
        yield c


SUBCHECKS = [
    Sub(
        "enum",
        check,
        kind="enum",
        cases=cases,
        nontrivial=nontrivial,
        classes=sc.structural_classes,
        exhaustive=True,
        budget_s={"quick": 80, "thorough": 1500},
        doc="all small DAGs x requests x {sync, controlled: all interleavings}; state snapshots vs invariants and model",
    ),
    Sub(
        "random",
        check,
        strategy=lambda tier: sc.random_case(),
        n={"quick": 1600, "thorough": 40000},
        nontrivial=nontrivial,
        classes=sc.structural_classes,
        doc="rich random graphs on sync/controlled/threaded pools",
    ),
]
