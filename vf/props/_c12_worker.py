"""Token worker for C12's cross-interpreter clause: reads value specs (JSON
lines) on stdin, prints {"token": ...} per line.  Started by the check with
another PYTHONHASHSEED."""
import json
import sys


def main():
    from dask.tokenize import tokenize

    from vf import values as V

    for line in sys.stdin:
        line = line.strip()
        if not line:
            continue
        try:
            spec = json.loads(line)
            out = {"token": tokenize(V.build(spec))}
        except Exception as e:  # noqa: BLE001
            out = {"error": f"{type(e).__name__}: {e}"}
        sys.stdout.write(json.dumps(out) + "\n")
        sys.stdout.flush()


if __name__ == "__main__":
    main()
