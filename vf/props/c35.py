"""C35 — map_blocks, blockwise and gufuncs see correct blocks and block locations."""
from __future__ import annotations

import copy
import itertools

import numpy as np
from hypothesis import strategies as st

from vf import arrays as A
from vf.core import Sub, ensure, impl

PROPERTY = "C35"
PRELOAD = ["dask.array"]
LEVEL = "exploration"
RULE = (
    "map_blocks: 1-3 inputs laid out on a common block grid (per input and dim: same chunks as the grid, a size-1 "
    "broadcast dim, a single full-length block, or the dim absent), optional literal argument, drop_axis/new_axis/"
    "chunks=, a user function that RECORDS block_id/block_info and its input blocks and returns data derived from them. "
    "Oracle: one recorded call per output block, its input blocks equal the reference slices, block_info equals the "
    "truth from the chunks, returned block shapes equal the lazy chunks, result == reference assembly. enum: all "
    "chunkings of small grids x broadcast layouts x drop/new modes. blockwise: random index strings (shared, "
    "contracted with concatenate=True/None, repeated, new_axes, adjust_chunks, different chunkings to be aligned): "
    "multiset of recorded calls == reference slices per output block, result == np.einsum on the whole arrays. "
    "apply_gufunc: signature table x loop-dim broadcasting x axis/axes/keepdims/allow_rechunk/vectorize == np.vectorize"
    "(signature). Non-trivial: >=2 inputs with different numblocks on some dim, or >=2 blocks with drop/new/adjust."
)
ASSUMPTIONS = [
    "calls made for meta inference (block_info not a dict / zero-size meta inputs) are not counted: dask documents them",
    "map_blocks without chunks= takes, per dim, the block structure of the first input with the most blocks (documented); a size-1 "
    "input is broadcast against the others, so the dim takes the others' chunks -- dask does this when the other input has >= 2 blocks "
    "there or comes first; the stratum b_first (size-1 input FIRST, the other input in ONE block of length > 1: block counts tie) "
    "demands the same and is the listed finding map-blocks-bcast-first-tie / blockwise-noalign-bcast-first-tie",
    "integer data, so einsum/vectorize references are exact",
    "blockwise: an index repeated inside one input ('ii') always carries the same chunks on both of its axes; different "
    "chunks there hit the unify_chunks shortcut defect that is listed (with a proposed fix) under C31 "
    "`einsum-repeated-index-diff-chunks` -- same root cause, not re-listed here",
    "explicit zero-size chunks are not generated (C19/C24 own that stratum)",
]
TECHNIQUE = "recording user functions under the synchronous scheduler, compared with reference slicing; differential vs NumPy"

LOG: list = []


def cum(chunks):
    return [0] + list(np.cumsum(chunks))


def canon_info(info):
    """block_info entry -> plain python (ints/tuples) for comparison."""
    out = {}
    for k, v in info.items():
        if k == "dtype":
            out[k] = np.dtype(v).str
        elif k == "array-location":
            out[k] = [(int(a), int(b)) for a, b in v]
        else:
            out[k] = tuple(int(x) for x in v)
    return out


# ------------------------------------------------------------------ map_blocks
def mb_layout(spec):
    """-> dict with per-input shapes/chunks, out dims, expected out chunks."""
    gshape, gch = spec["grid"]["shape"], spec["grid"]["chunks"]
    nd = len(gshape)
    ins = []
    for inp in spec["inputs"]:
        off = nd - len(inp["dims"])
        shape = [1 if k == "b" else gshape[off + j] for j, k in enumerate(inp["dims"])]
        chunks = [gch[off + j] if k == "f" else [shape[j]] for j, k in enumerate(inp["dims"])]
        ins.append({"shape": shape, "chunks": chunks, "off": off, "dims": inp["dims"], "dtype": "i8", "seed": inp["seed"], "fill": "small"})
    pre = []  # chunks of the pre-drop output dims
    for d in range(nd):
        kinds = [i["dims"][d - i["off"]] for i in ins if d >= i["off"]]
        pre.append(list(gch[d]) if "f" in kinds else [1])
    drop = sorted(a % nd for a in spec.get("drop", []))
    out_dims = [("old", d) for d in range(nd) if d not in drop]
    for ax in sorted(spec.get("new", [])):
        out_dims.insert(ax, ("new", None))
    k = spec.get("new_size") or 1
    out_chunks = [[k] if kind == "new" else list(pre[d]) for kind, d in out_dims]
    if spec.get("scale"):
        out_chunks[0] = [2 * c for c in out_chunks[0]]
    return dict(nd=nd, ins=ins, pre=pre, drop=drop, out_dims=out_dims, out_chunks=out_chunks)


def mb_pure(spec, lay, blocks, block_id):
    """The user function's data part: weighted broadcast sum of the blocks + a block-position code."""
    nd = lay["nd"]
    r = np.zeros((1,) * nd, dtype="i8")
    for w, (b, i) in enumerate(zip(blocks, lay["ins"])):
        # a full-length single block ('s' dim) next to a multi-block grid cannot broadcast elementwise: it is summed out
        b = b.sum(axis=tuple(j for j, k in enumerate(i["dims"]) if k == "s"), keepdims=True)
        r = r + (w + 1) * b.reshape((1,) * (nd - b.ndim) + b.shape)
    r = r + 1000 * sum(int(x) * 7**p for p, x in enumerate(block_id))
    if lay["drop"]:
        r = r.sum(axis=tuple(lay["drop"]))
    for ax in sorted(spec.get("new", [])):
        r = np.repeat(np.expand_dims(r, ax), spec.get("new_size") or 1, axis=ax)
    if spec.get("scale"):
        r = np.repeat(r, 2, axis=0)
    return r


def mb_check(spec):
    import dask.array as da

    lay = mb_layout(spec)
    nd, ins = lay["nd"], lay["ins"]
    xs = [A.build_np(i) for i in ins]
    ds = [A.build_da(i, x) for i, x in zip(ins, xs)]
    use = spec["use"]
    sig = dict(op="map_blocks", drop=bool(lay["drop"]), new=bool(spec.get("new")), chunks_kw=bool(spec.get("chunks_kw")), ninputs=len(ins), use=use,
               bcast_first_tie=mb_bcast_first_tie(spec))
    lit = spec.get("literal_at")
    nlit = 0 if lit is None else 1

    def body(blocks, block_info, block_id):
        real = (use == "block_id" or isinstance(block_info, dict)) and (use == "block_info" or isinstance(block_id, tuple))
        if not real:  # meta inference (documented: func is tried on zero-size inputs without block information)
            return np.zeros((0,) * len(lay["out_dims"]), dtype="i8")
        arrs = [b for b in blocks if isinstance(b, np.ndarray)]
        bid = block_id if use != "block_info" else block_info[None]["chunk-location"]
        r = mb_pure(spec, lay, arrs, bid)
        LOG.append({"id": tuple(int(x) for x in bid), "blocks": [a.copy() for a in arrs], "info": block_info, "lits": [b for b in blocks if not isinstance(b, np.ndarray)], "shape": r.shape})
        return r

    if use == "block_info":
        f = lambda *blocks, block_info=None: body(blocks, block_info, None)  # noqa: E731
    elif use == "block_id":
        f = lambda *blocks, block_id=None: body(blocks, None, block_id)  # noqa: E731
    else:
        f = lambda *blocks, block_info=None, block_id=None: body(blocks, block_info, block_id)  # noqa: E731
    args = list(ds)
    if lit is not None:
        args.insert(lit, 5)
    kw = {"dtype": "i8"}
    if spec.get("meta"):
        kw["meta"] = np.empty((0,) * len(lay["out_dims"]), dtype="i8")
    if lay["drop"]:
        kw["drop_axis"] = spec["drop"] if len(spec["drop"]) > 1 or spec.get("drop_list") else spec["drop"][0]
    if spec.get("new"):
        kw["new_axis"] = spec["new"] if len(spec["new"]) > 1 or spec.get("new_list") else spec["new"][0]
    if spec.get("chunks_kw"):
        kw["chunks"] = tuple(c[0] if spec["chunks_kw"] == "int" and len(set(c)) == 1 else tuple(c) for c in lay["out_chunks"])
    if spec.get("enforce_ndim"):
        kw["enforce_ndim"] = True
    del LOG[:]
    with impl("map_blocks", **sig):
        out = da.map_blocks(f, *args, **kw)
        got = out.compute(scheduler="sync")
    log = list(LOG)
    # ---- reference: iterate over the true output blocks
    ochunks = lay["out_chunks"]
    ensure(tuple(map(tuple, ochunks)) == out.chunks, f"lazy chunks {out.chunks} != expected {ochunks}", "lazy-chunks-mismatch", **sig)
    want = np.zeros([sum(c) for c in ochunks], dtype="i8")
    ostarts = [cum(c) for c in ochunks]
    calls = {e["id"]: e for e in log}
    ensure(len(calls) == len(log), f"function called more than once for a block: ids {[e['id'] for e in log]}", "called-twice", **sig)
    ids = list(itertools.product(*[range(len(c)) for c in ochunks]))
    ensure(sorted(calls) == ids, f"function called for blocks {sorted(calls)}, output has blocks {ids}", "wrong-call-set", **sig)
    pstarts = [cum(c) for c in lay["pre"]]
    for bid in ids:
        loc = {d: bid[p] for p, (kind, d) in enumerate(lay["out_dims"]) if kind == "old"}
        exp_blocks, exp_info = [], {}
        for pos, (i, x) in enumerate(zip(ins, xs)):
            sl, nchunks, cloc, aloc = [], [], [], []
            for j, k in enumerate(i["dims"]):
                d = i["off"] + j
                if k == "f" and d not in lay["drop"] and len(lay["pre"][d]) > 1:
                    b = loc[d]
                    lo, hi, n = pstarts[d][b], pstarts[d][b + 1], len(lay["pre"][d])
                else:
                    b, lo, hi, n = 0, 0, i["shape"][j], 1
                sl.append(slice(lo, hi)); nchunks.append(n); cloc.append(b); aloc.append((lo, hi))
            exp_blocks.append(x[tuple(sl)])
            exp_info[pos + (nlit if lit is not None and pos >= lit else 0)] = {"shape": tuple(i["shape"]), "num-chunks": tuple(nchunks), "chunk-location": tuple(cloc), "array-location": aloc}
        aloc = [(ostarts[p][b], ostarts[p][b + 1]) for p, b in enumerate(bid)]
        exp_info[None] = {"shape": want.shape, "num-chunks": tuple(len(c) for c in ochunks), "chunk-location": bid, "array-location": aloc, "chunk-shape": tuple(ochunks[p][b] for p, b in enumerate(bid)), "dtype": "<i8"}
        e = calls[bid]
        ensure(len(e["blocks"]) == len(exp_blocks) and all(a.shape == b.shape and np.array_equal(a, b) for a, b in zip(e["blocks"], exp_blocks)),
               f"block {bid}: function saw {[b.tolist() for b in e['blocks']]}, reference slices {[b.tolist() for b in exp_blocks]}", "wrong-input-blocks", **sig)
        ensure(e["lits"] == ([5] if lit is not None else []), f"literal argument arrived as {e['lits']}", "wrong-literal", **sig)
        if use != "block_id":
            gi = {k: canon_info(v) for k, v in e["info"].items()}
            xi = {k: canon_info(v) for k, v in exp_info.items()}
            ensure(gi == xi, f"block {bid}: block_info {gi} != truth {xi}", "wrong-block-info", **sig)
        ensure(e["shape"] == tuple(ochunks[p][b] for p, b in enumerate(bid)), f"block {bid}: returned shape {e['shape']} vs lazy chunk", "chunk-shape-mismatch", **sig)
        want[tuple(slice(a, b) for a, b in aloc)] = mb_pure(spec, lay, exp_blocks, bid)
    A.same_array(got, want, what="map_blocks result vs reference assembly", sig=sig)
    A.check_meta(out, got, sig=sig)


def mb_nontrivial(spec):
    lay = mb_layout(spec)
    multi = [d for d in range(lay["nd"]) if len(lay["pre"][d]) > 1]
    diff = any(any(d >= i["off"] and i["dims"][d - i["off"]] != "f" for d in multi) or i["off"] > min(multi, default=99) for i in lay["ins"]) and len(lay["ins"]) > 1
    return bool(multi) and (diff or bool(lay["drop"]) or bool(spec.get("new")) or bool(spec.get("scale")))


def mb_classes(spec):
    yield "use-" + spec["use"]
    for k in ("drop", "new", "scale", "chunks_kw", "meta", "literal_at", "enforce_ndim", "new_size"):
        if spec.get(k) not in (None, [], False):
            yield k
    if mb_bcast_first_tie(spec):
        yield "bcast-first-tie"
    yield f"ninputs-{len(spec['inputs'])}"
    for i in spec["inputs"]:
        for k in set(i["dims"]):
            yield "dim-" + k


def _fix(spec):
    """Keep the spec inside the documented domain: (a) a full-length single block ('s') next to a multi-block grid needs an
    input that follows the grid there; (b) where the grid has ONE block of length > 1, the first input present on the dim must
    not be the size-1 one -- unless spec['b_first'] asks for exactly that stratum (see mb_bcast_first_tie)."""
    g = spec["grid"]
    nd = len(g["shape"])
    if not any(len(i["dims"]) == nd for i in spec["inputs"]):
        spec["inputs"][0]["dims"] = ["f"] * nd
    for d in range(nd):
        pres = [(i, d - (nd - len(i["dims"]))) for i in spec["inputs"] if d >= nd - len(i["dims"])]
        kinds = [i["dims"][j] for i, j in pres]
        if "s" in kinds and ("f" not in kinds or len(g["chunks"][d]) < 2):
            for i, j in pres:
                if i["dims"][j] == "s":
                    i["dims"][j] = "f"
        if len(g["chunks"][d]) == 1 and g["shape"][d] != 1 and pres[0][0]["dims"][pres[0][1]] == "b" and not spec.get("b_first"):
            pres[0][0]["dims"][pres[0][1]] = "f"
    return spec


def mb_bcast_first_tie(spec):
    """spec['b_first'] lifts rule (b) of _fix: on some dim where the grid has ONE block of length > 1, the first input present is
    the size-1 (broadcast) one and a later input follows the grid.  The numbers of blocks tie there (1 and 1); the function
    broadcasts like NumPy, so the output block is as long as the grid -- the same call with the grid split in two blocks on that
    dim, or with the inputs in the other order, is inferred that way."""
    g = spec["grid"]
    nd = len(g["shape"])
    for d in range(nd):
        kinds = [i["dims"][d - (nd - len(i["dims"]))] for i in spec["inputs"] if d >= nd - len(i["dims"])]
        if len(g["chunks"][d]) == 1 and g["shape"][d] != 1 and kinds[0] == "b" and "f" in kinds:
            return True
    return False


def mb_enum(tier):
    grids = [[3], [2, 2], [3, 2]] if tier == "quick" else [[4], [3, 3], [3, 2, 2]]
    for shape in grids:
        nd = len(shape)
        seconds = [None] + [list(k) for n in range(1, nd + 1) for k in itertools.product("fb", repeat=n)]
        modes = [{}, {"drop": [0]}, {"drop": [-1]}, {"new": [0]}, {"new": [nd], "new_size": 2, "chunks_kw": "tuple"}, {"scale": True, "chunks_kw": "tuple"}]
        for ch, second, (m, mode), use in itertools.product(A.all_chunkings(shape), seconds, enumerate(modes), ["both", "block_info"] if tier == "quick" else ["both", "block_info", "block_id"]):
            inputs = [{"dims": ["f"] * nd, "seed": 1}] + ([{"dims": second, "seed": 2}] if second else [])
            if m % 2:
                inputs = inputs[::-1]
            spec = {"grid": {"shape": shape, "chunks": ch}, "inputs": inputs, "use": use, "meta": bool(m % 2), **mode}
            alt = _fix({**copy.deepcopy(spec), "b_first": True})
            yield _fix(spec)
            if mb_bcast_first_tie(alt):  # the size-1 input first on a one-block dim: only where that differs from the spec above
                yield alt


@st.composite
def mb_random(draw):
    nd = draw(st.integers(1, 3))
    shape = [draw(st.integers(1, 5)) for _ in range(nd)]
    spec = {"grid": {"shape": shape, "chunks": draw(A.chunks_for_shape(shape))}, "use": draw(st.sampled_from(["both", "block_info", "block_id"])), "meta": draw(st.booleans())}
    spec["inputs"] = [{"dims": [draw(st.sampled_from("fffbs")) for _ in range(draw(st.integers(1, nd)))], "seed": draw(st.integers(0, 999))} for _ in range(draw(st.integers(1, 3)))]
    if draw(st.integers(0, 3)) == 0:
        # lift rule (b) of _fix, and (by construction rather than by luck) put a size-1 input first on a one-block dim of length > 1
        spec["b_first"] = True
    _fix(spec)
    cand = [d for d in range(nd) if len(spec["grid"]["chunks"][d]) == 1 and shape[d] > 1]
    if spec.get("b_first") and cand:
        d = draw(st.sampled_from(cand))
        pres = [(i, d - (nd - len(i["dims"]))) for i in spec["inputs"] if d >= nd - len(i["dims"])]
        if len(pres) > 1:
            pres[0][0]["dims"][pres[0][1]] = "b"
            pres[1][0]["dims"][pres[1][1]] = "f"
    if draw(st.booleans()):
        spec["literal_at"] = draw(st.integers(0, len(spec["inputs"])))
    ndo = nd
    if draw(st.integers(0, 2)) == 0:
        spec["drop"] = draw(st.lists(st.integers(-nd, nd - 1), min_size=1, max_size=nd, unique_by=lambda a: a % nd))
        spec["drop_list"] = draw(st.booleans())
        ndo -= len(spec["drop"])
    if draw(st.integers(0, 2)) == 0:
        nnew = draw(st.integers(1, 2))
        spec["new"] = sorted(draw(st.lists(st.integers(0, ndo + nnew - 1), min_size=nnew, max_size=nnew, unique=True)))
        spec["new_list"] = draw(st.booleans())
        ndo += nnew
        if draw(st.booleans()):
            spec.update(new_size=draw(st.integers(2, 3)), chunks_kw=draw(st.sampled_from(["tuple", "int"])))
    if ndo and draw(st.integers(0, 3)) == 0:
        spec.update(scale=True, chunks_kw=draw(st.sampled_from(["tuple", "int"])))
    if draw(st.integers(0, 3)) == 0 and not spec.get("chunks_kw"):
        spec["chunks_kw"] = draw(st.sampled_from(["tuple", "int"]))
    spec["enforce_ndim"] = draw(st.integers(0, 3)) == 0
    return spec


# ------------------------------------------------------------------ da.blockwise
def bw_arrays(spec):
    out = []
    for inp in spec["inputs"]:
        shape = [1 if b else spec["letters"][l]["n"] for l, b in zip(inp["ind"], inp["bcast"])]
        chunks = [[1] if b else (inp.get("own", {}).get(l) or spec["letters"][l]["chunks"]) for l, b in zip(inp["ind"], inp["bcast"])]
        out.append({"shape": shape, "chunks": chunks, "dtype": "i8", "seed": inp["seed"], "fill": "small"})
    return out


def bw_pure(spec, arrays, lists=False):
    """einsum over the (whole or block) arrays, then new axes / adjust_chunks repeats / literal."""
    out, new = spec["out"], spec.get("new_axes", {})
    core = "".join(l for l in out if l not in new)
    sub = ",".join(i["ind"] for i in spec["inputs"]) + "->" + core
    if lists:  # concatenate=None: contracted letters arrive as lists of blocks
        n = max(len(a) for a in arrays if isinstance(a, list))
        r = sum(np.einsum(sub, *[a[p] if isinstance(a, list) else a for a in arrays]) for p in range(n))
    else:
        r = np.einsum(sub, *arrays)
    r = np.asarray(r, dtype="i8")
    for p, l in enumerate(out):
        if l in new:
            r = np.repeat(np.expand_dims(r, p), new[l], axis=p)
        if l in spec.get("adjust", {}):
            r = np.repeat(r, 2, axis=p)
    return r + spec.get("literal", 0)


def bw_bcast_first_tie(spec):
    """align_arrays=False and, for some output letter with ONE block of length > 1, the first input carrying the letter is the
    size-1 (broadcast) one while a later input has the full length: block counts tie at 1."""
    if spec.get("unaligned") or not spec.get("align_false"):
        return False
    for l in spec["out"]:
        if l in spec["letters"] and spec["letters"][l]["n"] > 1 and len(spec["letters"][l]["chunks"]) == 1:
            b = [i["bcast"][i["ind"].index(l)] for i in spec["inputs"] if l in i["ind"]]
            if b and b[0] and not all(b):
                return True
    return False


def bw_check(spec):
    import dask.array as da

    aspecs = bw_arrays(spec)
    xs = [A.build_np(a) for a in aspecs]
    ds = [A.build_da(a, x) for a, x in zip(aspecs, xs)]
    out, new, conc = spec["out"], spec.get("new_axes", {}), spec["concatenate"]
    sig = dict(op="blockwise", concatenate=bool(conc), new_axes=bool(new), adjust=bool(spec.get("adjust")), align=bool(spec.get("unaligned")),
               bcast_first_tie=bw_bcast_first_tie(spec))

    def f(*args):
        arrs = [a if isinstance(a, np.ndarray) else list(a) for a in args[: len(xs)]]
        LOG.append(arrs)
        return bw_pure({**spec, "literal": args[len(xs)] if len(args) > len(xs) else 0}, list(arrs), lists=not conc)

    pairs = list(itertools.chain.from_iterable((d, i["ind"]) for d, i in zip(ds, spec["inputs"])))
    if "literal" in spec:
        pairs += [spec["literal"], None]
    kw = {"dtype": "i8", "meta": np.empty((0,) * len(out), dtype="i8"), "concatenate": conc}
    if new:
        kw["new_axes"] = dict(new)
    if spec.get("adjust"):
        lc = {l: spec["letters"][l]["chunks"] for l in spec["adjust"]}
        kw["adjust_chunks"] = {l: (lambda n: 2 * n) if how == "fn" else tuple(2 * c for c in lc[l]) if how == "tuple" else 2 * lc[l][0] for l, how in spec["adjust"].items()}
    if not spec.get("unaligned") and spec.get("align_false"):
        kw["align_arrays"] = False
    del LOG[:]
    with impl("blockwise", **sig):
        z = da.blockwise(f, out, *pairs, **kw)
        got = z.compute(scheduler="sync")
    log = list(LOG)
    want = bw_pure(spec, xs)
    A.same_array(got, want, what=f"blockwise {[i['ind'] for i in spec['inputs']]}->{out}", sig=sig)
    A.check_meta(z, got, sig=sig)
    # ---- the calls: one per output block, with the reference slices.  The grid of an output letter is the lazy output
    # chunking (dask may refine differently-chunked inputs when aligning; any refinement is fine) undone for adjust_chunks.
    grid = {}
    for p, l in enumerate(out):
        c = list(z.chunks[p])
        grid[l] = [x // 2 for x in c] if l in spec.get("adjust", {}) else c
        if l not in new:
            n = 1 if all(i["bcast"][i["ind"].index(l)] for i in spec["inputs"] if l in i["ind"]) else spec["letters"][l]["n"]
            ensure(sum(grid[l]) == n, f"output chunks {z.chunks} do not cover letter {l} (length {n})", "chunks-sum-mismatch", **sig)
    expected = []
    for bid in itertools.product(*[range(len(grid[l])) for l in out]):
        pos = dict(zip(out, bid))
        call = []
        for x, i in zip(xs, spec["inputs"]):
            sl, listed = [], None
            for ax, (l, b) in enumerate(zip(i["ind"], i["bcast"])):
                if b or l not in pos or len(grid[l]) == 1:
                    sl.append(slice(None))
                    if not b and l not in pos and not conc:
                        listed = (ax, spec["letters"][l]["chunks"])
                else:
                    s = cum(grid[l])
                    sl.append(slice(s[pos[l]], s[pos[l] + 1]))
            blk = x[tuple(sl)]
            if listed:
                s = cum(listed[1])
                blk = [blk[(slice(None),) * listed[0] + (slice(s[q], s[q + 1]),)] for q in range(len(listed[1]))]
            call.append(blk)
        expected.append(call)
    key = lambda call: repr([[b.shape, b.tolist()] if isinstance(b, np.ndarray) else [[c.shape, c.tolist()] for c in b] for b in call])  # noqa: E731
    ensure(len(log) == len(expected), f"function called {len(log)} times for {len(expected)} output blocks", "wrong-call-count", **sig)
    ensure(sorted(map(key, log)) == sorted(map(key, expected)), f"recorded input blocks differ from the reference slices: got {sorted(map(key, log))[:3]} want {sorted(map(key, expected))[:3]}", "wrong-input-blocks", **sig)


def bw_nontrivial(spec):
    nb = {l: len(v["chunks"]) for l, v in spec["letters"].items()}
    multi = any(nb[l] > 1 for l in spec["out"] if l in nb)
    contracted = any(nb[l] > 1 for i in spec["inputs"] for l in i["ind"] if l not in spec["out"])
    return (multi or contracted) and (len(spec["inputs"]) > 1 or contracted or bool(spec.get("adjust")) or bool(spec.get("new_axes")))


def bw_classes(spec):
    yield f"ninputs-{len(spec['inputs'])}"
    yield "concatenate-" + str(spec["concatenate"])
    for k in ("new_axes", "adjust", "unaligned", "literal", "align_false"):
        if spec.get(k):
            yield k
    if any(l not in spec["out"] for i in spec["inputs"] for l in i["ind"]):
        yield "contracted"
    if any(len(set(i["ind"])) < len(i["ind"]) for i in spec["inputs"]):
        yield "repeated-in-one-input"
    if any(any(i["bcast"]) for i in spec["inputs"]):
        yield "broadcast"
    if bw_bcast_first_tie(spec):
        yield "bcast-first-tie"


@st.composite
def bw_random(draw):
    letters = {l: {"n": (n := draw(st.integers(1, 4))), "chunks": draw(A.chunks_for_axis(n))} for l in "ijk"[: draw(st.integers(1, 3))]}
    names = sorted(letters)
    repeated = draw(st.integers(0, 5)) == 0
    inputs = []
    for _ in range(draw(st.sampled_from([1, 2, 2, 2, 3, 3]))):
        ind = draw(st.lists(st.sampled_from(names), min_size=1, max_size=3, unique=not repeated))
        inputs.append({"ind": "".join(ind), "seed": draw(st.integers(0, 999)), "bcast": [False] * len(ind)})
    used = sorted({l for i in inputs for l in i["ind"]})
    out = draw(st.permutations(used))[: draw(st.integers(0, len(used)))]
    # a letter repeated inside one input ('ii': only diagonal blocks are visited) must stay in the output
    out = list(out) + sorted({l for i in inputs for l in i["ind"] if i["ind"].count(l) > 1} - set(out))
    spec = {"letters": letters, "inputs": inputs, "out": "".join(out), "concatenate": True}
    contracted = [l for l in used if l not in out]
    mode = draw(st.sampled_from(["plain", "lists", "lists", "unaligned", "unaligned", "bcast", "bcast", "bcast", "bcast_any", "bcast_any"]))
    if mode == "lists" and len(contracted) == 1 and not repeated:
        spec["concatenate"] = None
    elif mode == "unaligned" and not repeated:
        # different chunkings of the same letter: blockwise aligns them (align_arrays=True)
        for i in inputs[1:]:
            i["own"] = {l: draw(A.chunks_for_axis(letters[l]["n"])) for l in set(i["ind"])}
        spec["unaligned"] = True
    elif mode == "bcast" and len(inputs) > 1 and not repeated:
        for i in inputs[1:]:
            i["bcast"] = [l in out and draw(st.booleans()) for l in i["ind"]]
    elif mode == "bcast_any" and len(inputs) > 1 and not repeated:
        # any input (the first one too) may be the size-1 one on an output letter, with or without align_arrays=False (the block
        # counts already agree up to broadcasting, so alignment has nothing to do)
        for i in inputs:
            i["bcast"] = [l in out and draw(st.booleans()) for l in i["ind"]]
        spec["align_false"] = draw(st.booleans())
    else:
        spec["align_false"] = draw(st.booleans())
    if draw(st.integers(0, 3)) == 0:
        spec["new_axes"] = {"z": draw(st.integers(1, 3))}
        o = list(spec["out"])
        o.insert(draw(st.integers(0, len(o))), "z")
        spec["out"] = "".join(o)
    adj = [l for l in out if not spec.get("unaligned") and not any(i["bcast"][i["ind"].index(l)] for i in inputs if l in i["ind"])]
    if adj and draw(st.integers(0, 2)) == 0:
        l = draw(st.sampled_from(adj))
        hows = ["fn", "tuple"] + (["int"] if len(set(letters[l]["chunks"])) == 1 else [])
        spec["adjust"] = {l: draw(st.sampled_from(hows))}
    if draw(st.integers(0, 3)) == 0:
        spec["literal"] = draw(st.integers(1, 9))
    return spec


# ------------------------------------------------------------------ apply_gufunc
GUF = {
    "(i),(i)->()": lambda a, b: (a * b).sum(-1),
    "(i)->()": lambda a: a.sum(-1) * 3,
    "(i)->(i)": lambda a: np.cumsum(a, -1),
    "(i,j),(j)->(i)": lambda a, b: np.einsum("...ij,...j->...i", a, b),
    "(i),(j)->(i,j)": lambda a, b: a[..., :, None] * b[..., None, :],
    "()->(),()": lambda a: (a + 1, a * 2),
    "(i)->(),()": lambda a: (a.sum(-1), a.max(-1)),
    "(),()->()": lambda a, b: a * 10 + b,
    "()->(k)": lambda a: a[..., None] + np.arange(3),
}


def gu_check(spec):
    import dask.array as da
    from dask.array.gufunc import _parse_gufunc_signature

    sgn = spec["sig"]
    fn = GUF[sgn]
    xs = [A.build_np(a) for a in spec["arrays"]]
    ds = [A.build_da(a, x) for a, x in zip(spec["arrays"], xs)]
    axis, axes, keep = spec.get("axis"), spec.get("axes"), spec.get("keepdims", False)
    sig = dict(op="apply_gufunc", signature=sgn, axis=axis is not None, axes=axes is not None, keepdims=keep, allow_rechunk=spec["allow_rechunk"], vectorize=spec["vectorize"])
    icd, ocd = _parse_gufunc_signature(sgn)
    multi = isinstance(ocd, list)
    ocds = ocd if multi else [ocd]
    # ---- reference: np.vectorize(signature) on inputs whose core axes were moved to the end
    in_axes = [tuple(a) if isinstance(a, list) else (a,) for a in axes[: len(xs)]] if axes else [((axis,) if len(c) == 1 and axis is not None else tuple(range(-len(c), 0))) for c in icd]
    moved = [np.moveaxis(x, ia, tuple(range(-len(ia), 0))) if ia else x for x, ia in zip(xs, in_axes)]
    with np.errstate(all="ignore"):
        want = np.vectorize(fn, signature=sgn)(*moved)
    wants = list(want) if multi else [want]
    out_axes = [tuple(a) if isinstance(a, list) else (a,) for a in axes[len(xs):]] if axes and len(axes) > len(xs) else None
    for k, w in enumerate(wants):
        if keep:
            ax = out_axes[k] if out_axes else in_axes[0]
            for a in sorted(a % (w.ndim + len(ax)) for a in ax):
                w = np.expand_dims(w, a)
        elif ocds[k]:
            oa = out_axes[k] if out_axes else ((axis,) if axis is not None and len(ocds[k]) == 1 else None)
            if oa:
                w = np.moveaxis(w, tuple(range(-len(oa), 0)), oa)
        wants[k] = w
    kw = dict(allow_rechunk=spec["allow_rechunk"], vectorize=spec["vectorize"], output_dtypes=["i8"] * len(ocds) if multi else "i8")
    if sgn == "()->(k)":
        kw["output_sizes"] = {"k": 3}
    if axis is not None:
        kw["axis"] = axis
    if axes is not None:
        kw["axes"] = [tuple(a) if isinstance(a, list) else a for a in axes]
    if keep:
        kw["keepdims"] = True
    with impl("apply_gufunc", **sig), np.errstate(all="ignore"):
        r = da.apply_gufunc(fn, sgn, *ds, **kw)
        rs = list(r) if multi else [r]
        gots = [x.compute(scheduler="sync") for x in rs]
    ensure(len(rs) == len(wants), f"{len(rs)} outputs, reference {len(wants)}", "count-mismatch", **sig)
    for d, got, w in zip(rs, gots, wants):
        A.same_array(got, w, what=f"apply_gufunc {sgn} {kw}", sig=sig)
        A.check_meta(d, got, sig=sig)


def gu_out_axes_cases(tier):
    """'(i),(j)->(i,j)' (an output with TWO core dimensions) with every ordered pair of output positions given through
    `axes`, ascending and descending, equal and unequal core lengths, every chunking of the loop dimension."""
    import itertools

    for (ni, nj), loop in itertools.product([(3, 3), (3, 4), (2, 2)], [2, 3]):
        for lc in A.all_chunkings([loop]):
            for oa in itertools.permutations([-3, -2, -1], 2):
                for pos in (False, True):
                    o = [a % 3 for a in oa] if pos else list(oa)
                    yield {"sig": "(i),(j)->(i,j)", "allow_rechunk": False, "vectorize": False, "axis": None, "axes": [-1, -1, o],
                           "arrays": [{"shape": [loop, ni], "chunks": [list(lc[0]), [ni]], "dtype": "i8", "seed": 1, "fill": "small"},
                                      {"shape": [loop, nj], "chunks": [list(lc[0]), [nj]], "dtype": "i8", "seed": 2, "fill": "small"}]}


def gu_nontrivial(spec):
    nb = [[len(c) for c in a["chunks"]] for a in spec["arrays"]]
    return any(max(n, default=1) > 1 for n in nb) and (len(nb) > 1 or spec["allow_rechunk"] or spec.get("axis") is not None or spec.get("axes") is not None)


def gu_classes(spec):
    yield spec["sig"]
    for k in ("axis", "axes", "keepdims", "allow_rechunk", "vectorize"):
        if spec.get(k) not in (None, False):
            yield k


@st.composite
def gu_random(draw):
    from dask.array.gufunc import _parse_gufunc_signature

    sgn = draw(st.sampled_from(sorted(GUF)))
    icd, ocd = _parse_gufunc_signature(sgn)
    allow = draw(st.integers(0, 2)) == 0
    core = {l: draw(st.integers(1, 4)) for c in icd for l in c}
    nloop = draw(st.integers(0, 2))
    loop = [draw(st.integers(1, 4)) for _ in range(nloop)]
    loop_chunks = [draw(A.chunks_for_axis(n)) for n in loop]
    spec = {"sig": sgn, "allow_rechunk": allow, "vectorize": draw(st.booleans()), "arrays": []}
    axis = axes = None
    nds = []
    for c in icd:
        k = draw(st.integers(0, nloop)) if len(icd) > 1 else nloop
        ls, lc = list(loop[nloop - k:]), [list(x) for x in loop_chunks[nloop - k:]]
        for j in range(k):
            if len(icd) > 1 and draw(st.integers(0, 3)) == 0:
                ls[j], lc[j] = 1, [1]  # broadcast loop dim
            elif allow and draw(st.booleans()):
                lc[j] = draw(A.chunks_for_axis(ls[j]))  # loop chunks may differ only when rechunking is allowed
        shape = ls + [core[l] for l in c]
        chunks = lc + [draw(A.chunks_for_axis(core[l])) if allow else [core[l]] for l in c]
        nds.append(len(shape))
        spec["arrays"].append({"shape": shape, "chunks": chunks, "dtype": "i8", "seed": draw(st.integers(0, 999)), "fill": "small"})
    single = all(len(c) == 1 for c in icd)
    if single and sgn in ("(i),(i)->()", "(i)->()", "(i)->(i)", "(i)->(),()") and draw(st.booleans()) and len(set(nds)) == 1:
        axis = draw(st.integers(-nds[0], nds[0] - 1))
        spec["keepdims"] = sgn != "(i)->(i)" and draw(st.booleans())
    elif sgn == "(i,j),(j)->(i)" and draw(st.booleans()):
        a = draw(st.permutations(range(-nds[0], 0)))[:2]
        axes = [list(a), draw(st.integers(-nds[1], -1)), draw(st.integers(-max(nds[0] - 1, nds[1]), -1))]
    elif single and sgn in ("(i),(i)->()", "(i)->()") and draw(st.integers(0, 2)) == 0:
        spec["keepdims"] = True
    if axis is not None or axes is not None:
        # move the generated core axes (built last) to the requested positions so shapes stay consistent
        for a, ia in zip(spec["arrays"], [[axis]] * len(icd) if axis is not None else [axes[0], [axes[1]]]):
            n = len(ia)
            nd_ = len(a["shape"])
            order = [None] * nd_
            for src, dst in zip(range(nd_ - n, nd_), ia):
                order[dst % nd_] = src
            rest = iter(range(nd_ - n))
            order = [next(rest) if o is None else o for o in order]
            a["shape"] = [a["shape"][o] for o in order]
            a["chunks"] = [a["chunks"][o] for o in order]
    spec["axis"], spec["axes"] = axis, axes
    return spec


SUBCHECKS = [
    Sub("map_blocks_enum", mb_check, kind="enum", cases=mb_enum, nontrivial=mb_nontrivial, classes=mb_classes, exhaustive=True,
        doc="all chunkings of small grids x second-input broadcast layouts x {plain, drop_axis, new_axis, chunks=} x block_info/block_id"),
    Sub("map_blocks", mb_check, strategy=lambda tier: mb_random(), n={"quick": 1500, "thorough": 30000}, nontrivial=mb_nontrivial, classes=mb_classes,
        doc="random grids, 1-3 inputs, literal args, drop_axis/new_axis/chunks=, recording functions"),
    Sub("blockwise", bw_check, strategy=lambda tier: bw_random(), n={"quick": 1500, "thorough": 30000}, nontrivial=bw_nontrivial, classes=bw_classes,
        doc="da.blockwise with random index strings, contraction (concatenate True/None), new_axes, adjust_chunks, alignment"),
    Sub("gufunc-out-axes", gu_check, kind="enum", cases=gu_out_axes_cases, nontrivial=lambda spec: spec["axes"][2][0] % 3 > spec["axes"][2][1] % 3, classes=gu_classes, exhaustive=True,
        doc="'(i),(j)->(i,j)' with every ordered pair of output core positions in `axes` (negative and positive spelling), equal/unequal core lengths, all loop chunkings == np.vectorize + moveaxis"),
    Sub("gufunc", gu_check, strategy=lambda tier: gu_random(), n={"quick": 1000, "thorough": 20000}, nontrivial=gu_nontrivial, classes=gu_classes,
        doc="apply_gufunc over a signature table with axis/axes/keepdims/allow_rechunk/vectorize vs np.vectorize(signature)"),
]
