"""C51 — term-rewrite matching (dask.rewrite) is sound and complete.

Spec encoding of terms/patterns (plain JSON):
    ["f", T, T]      application of the function symbol "f" (FIXED arity, see SIG)
    {"v": "x"}       pattern variable (patterns and right-hand sides only)
    1, "a"           hashable constant (ints, strings distinct from the variable names)
    {"t": [1, 2]}    hashable non-task tuple constant
    {"u": 3}         UNHASHABLE leaf (a dict) — terms only; can only be bound by a variable
A rule is {"lhs": P, "rhs": P} or {"lhs": P, "rhs": {"call": "collect"}} (callable
right-hand side, called with the bindings dict).

Oracle: a brute-force matcher (`unify`) working on the *spec* trees, i.e. it
shares no representation with dask.rewrite's preorder-flattened discrimination
net.

Domain restrictions (DESIGN §8.2, and why they are not a weakening of the
statement): every function symbol has ONE arity; no nullary applications and no
bare function symbols as leaves ((g,) and g flatten to the same traversal); no
list patterns; constants are disjoint from variable names (``RewriteRule._apply``
substitutes the bindings one after the other, which is simultaneous
substitution only under that condition); rhs variables are a subset of the lhs
variables.  Only top-level rewriting is in the statement, so the bottom_up
strategy is not judged.
"""
from __future__ import annotations

import itertools

from hypothesis import strategies as st

from vf.core import Sub, ensure, impl, short

PROPERTY = "C51"
LEVEL = "exploration"
TECHNIQUE = "differential testing against a brute-force unifier: exhaustive small signature + Hypothesis-generated rule sets/terms"
RULE = (
    "enum_single: EVERY pattern of depth<=2 over {f/2, g/1, constants 1,2, variables x,y} (604 patterns) as a one-rule "
    "RuleSet x EVERY ground term of depth<=2 (74 terms; thorough: every ground term of depth<=3 that has at most 7 nodes); "
    "enum_pairs: every ORDERED pair of patterns of depth<=1 (24x24) as a two-rule RuleSet x every ground term of depth<=2; "
    "random: 1-5 rules over {f/2, g/1, h/3}, constants 0,1,'a','b', tuple constants, variables x,y,z (repeated variables "
    "frequent), lhs depth<=3 (later rules often generalisations of earlier ones), callable right-hand sides, terms of depth<=4 (with unhashable leaves) obtained by "
    "instantiating a rule's lhs (possibly perturbed) or drawn freely.  Checked per case: multiset of (rule, bindings) from "
    "iter_matches == brute-force unifier; lhs[bindings] == term; _rewrite(term) and rewrite(term, 'top_level') are the "
    "rhs instance of one of the matching rules, or the term itself when none matches.  Non-trivial: >=2 rules match, or a "
    "rule with a repeated variable matches structurally (so binding consistency decides the match)."
)
ASSUMPTIONS = [
    "fixed arity per function symbol, no nullary applications, no bare function symbols as leaves, no list patterns (DESIGN 8.2)",
    "constants are disjoint from variable names; rhs variables are a subset of lhs variables",
    "unhashable leaves occur in terms only (a pattern with an unhashable constant cannot be inserted in the net)",
    "bottom_up strategy is outside the statement and not judged",
]


# ---------------------------------------------------------------- signature
class Sym:
    """a function symbol: callable (so that (sym, ...) is a task for dask.rewrite), never called, readable repr"""

    def __init__(self, name):
        self.__name__ = name

    def __call__(self, *a):  # pragma: no cover
        return (self.__name__,) + a

    def __repr__(self):
        return self.__name__


f, g, h = Sym("f"), Sym("g"), Sym("h")
SIG = {"f": (f, 2), "g": (g, 1), "h": (h, 3)}
VARS = ("x", "y", "z")


def collect(sd):
    """callable right-hand side: returns a value that depends on every binding"""
    return ("collected", tuple(sorted((k, repr(v)) for k, v in sd.items())))


CALLS = {"collect": collect}


# ---------------------------------------------------------------- spec trees
def is_app(t):
    return isinstance(t, list)


def is_var(t):
    return isinstance(t, dict) and "v" in t


def live(t):
    """spec tree -> the object dask.rewrite sees"""
    if is_app(t):
        fn, ar = SIG[t[0]]
        assert len(t) - 1 == ar, "generator bug: arity"
        return (fn,) + tuple(live(a) for a in t[1:])
    if isinstance(t, dict):
        if "v" in t:
            return t["v"]
        if "t" in t:
            return tuple(t["t"])
        if "u" in t:
            return {"k": t["u"]}
        raise ValueError(t)
    return t


def unify(p, t, b):
    """brute-force matcher on spec trees; returns the extended bindings or None"""
    if is_var(p):
        n = p["v"]
        if n in b:
            return b if b[n] == t else None
        b = dict(b)
        b[n] = t
        return b
    if is_app(p):
        if not is_app(t) or p[0] != t[0] or len(p) != len(t):
            return None
        for pa, ta in zip(p[1:], t[1:]):
            b = unify(pa, ta, b)
            if b is None:
                return None
        return b
    # constant
    if is_app(t) or type(p) is not type(t) or p != t:
        return None
    return b


def linear_match(p, t):
    """structural match ignoring consistency of repeated variables"""
    if is_var(p):
        return True
    if is_app(p):
        return is_app(t) and p[0] == t[0] and len(p) == len(t) and all(linear_match(a, b) for a, b in zip(p[1:], t[1:]))
    return (not is_app(t)) and type(p) is type(t) and p == t


def subst(p, b):
    """simultaneous substitution on spec trees"""
    if is_var(p):
        return b.get(p["v"], p)
    if is_app(p):
        return [p[0]] + [subst(a, b) for a in p[1:]]
    return p


def var_occurrences(p, out=None):
    out = [] if out is None else out
    if is_var(p):
        out.append(p["v"])
    elif is_app(p):
        for a in p[1:]:
            var_occurrences(a, out)
    return out


def expected_matches(spec):
    out = []
    for i, r in enumerate(spec["rules"]):
        b = unify(r["lhs"], spec["term"], {})
        if b is not None:
            out.append((i, b))
    return out


def canon(x):
    """order-insensitive comparison key for live values (dict leaves are unhashable)"""
    if isinstance(x, tuple):
        return ("T",) + tuple(canon(a) for a in x)
    if isinstance(x, dict):
        return ("D",) + tuple(sorted((repr(k), canon(v)) for k, v in x.items()))
    if callable(x):
        return ("F", x.__name__)
    return (type(x).__name__, repr(x))


def live_subst(pat, b):
    """simultaneous substitution on LIVE patterns (strings naming variables)"""
    if type(pat) is tuple and pat and callable(pat[0]):
        return pat[:1] + tuple(live_subst(a, b) for a in pat[1:])
    if isinstance(pat, str) and pat in b:
        return b[pat]
    return pat


# ---------------------------------------------------------------- the check
def check(spec):
    from dask.rewrite import RewriteRule, RuleSet

    term = live(spec["term"])
    rules = []
    for r in spec["rules"]:
        rhs = r["rhs"]
        rhs_live = CALLS[rhs["call"]] if isinstance(rhs, dict) and "call" in rhs else live(rhs)
        with impl("RewriteRule"):
            rules.append(RewriteRule(live(r["lhs"]), rhs_live, VARS))
    with impl("RuleSet"):
        rs = RuleSet(*rules)

    want = expected_matches(spec)
    nrules = len(rules)
    sig = dict(nrules=min(nrules, 2), repeated_var=any(len(set(v)) < len(v) for v in (var_occurrences(r["lhs"]) for r in spec["rules"])))

    with impl("iter_matches", **sig):
        got = list(rs.iter_matches(term))
    got_c = []
    for rule, sd in got:
        idx = [i for i, r in enumerate(rules) if r is rule]
        ensure(len(idx) == 1, f"iter_matches yielded a rule object that is not in the rule set: {rule}", "foreign-rule", **sig)
        ensure(isinstance(sd, dict), f"bindings are not a dict: {short(sd)}", "bindings-type", **sig)
        # soundness, stated directly: lhs with the yielded bindings substituted equals the term
        inst = live_subst(rule.lhs, sd)
        ensure(
            canon(inst) == canon(term),
            f"unsound match: rule {idx[0]} lhs={rule.lhs} with bindings {short(sd)} gives {short(inst)}, term is {short(term)}",
            "unsound-match",
            **sig,
        )
        ensure(
            set(sd) == set(var_occurrences(spec["rules"][idx[0]]["lhs"])),
            f"bindings {short(sd)} do not bind exactly the variables of lhs {rule.lhs}",
            "bindings-domain",
            **sig,
        )
        got_c.append((idx[0], tuple(sorted((k, canon(v)) for k, v in sd.items()))))
    want_c = [(i, tuple(sorted((k, canon(live(v))) for k, v in b.items()))) for i, b in want]
    missing = [w for w in want_c if want_c.count(w) > got_c.count(w)]
    extra = [w for w in got_c if got_c.count(w) > want_c.count(w)]
    ensure(not missing, f"incomplete: rule(s) {sorted({m[0] for m in missing})} match term {short(term)} but iter_matches yielded {short(got)}", "missed-match", **sig)
    ensure(not extra, f"iter_matches yielded {short(got)}; brute force finds only {short(want)} for term {short(term)}", "extra-match", **sig)

    # top-level rewrite
    options = []
    for i, b in want:
        rhs = spec["rules"][i]["rhs"]
        lb = {k: live(v) for k, v in b.items()}
        if isinstance(rhs, dict) and "call" in rhs:
            options.append(CALLS[rhs["call"]](lb))
        else:
            options.append(live(subst(rhs, b)))
    for label, call in (("_rewrite", lambda: rs._rewrite(term)), ("rewrite-top_level", lambda: rs.rewrite(term, strategy="top_level"))):
        with impl(label, **sig):
            out = call()
        if options:
            ensure(
                any(canon(out) == canon(o) for o in options),
                f"{label}({short(term)}) = {short(out)}, which is not the rhs instance of any matching rule {short(options)}",
                "rewrite-not-a-matching-rule",
                **sig,
            )
        else:
            ensure(canon(out) == canon(term), f"{label}({short(term)}) = {short(out)} although no rule matches", "rewrite-without-match", **sig)


def nontrivial(spec):
    if len(expected_matches(spec)) >= 2:
        return True
    for r in spec["rules"]:
        occ = var_occurrences(r["lhs"])
        if len(set(occ)) < len(occ) and linear_match(r["lhs"], spec["term"]):
            return True
    return False


def depth(t):
    if is_app(t):
        return 1 + max(depth(a) for a in t[1:])
    return 0


def classes(spec):
    m = len(expected_matches(spec))
    yield f"matches-{min(m, 3)}"
    yield f"term-depth-{depth(spec['term'])}"
    for r in spec["rules"]:
        occ = var_occurrences(r["lhs"])
        if len(set(occ)) < len(occ):
            yield "rule-repeated-var"
            if linear_match(r["lhs"], spec["term"]):
                yield "repeated-var-consistent" if unify(r["lhs"], spec["term"], {}) is not None else "repeated-var-INconsistent"
        if is_var(r["lhs"]):
            yield "rule-lhs-bare-variable"
        if isinstance(r["rhs"], dict) and "call" in r["rhs"]:
            yield "rule-callable-rhs"
    if _has_unhashable(spec["term"]):
        yield "term-unhashable-leaf"


def _has_unhashable(t):
    if is_app(t):
        return any(_has_unhashable(a) for a in t[1:])
    return isinstance(t, dict) and "u" in t


# ---------------------------------------------------------------- enumeration
def _trees(leaves, maxdepth, funcs=(("f", 2), ("g", 1))):
    """all trees of depth <= maxdepth"""
    level = list(leaves)
    allt = list(level)
    for _ in range(maxdepth):
        new = []
        for name, ar in funcs:
            for combo in itertools.product(allt, repeat=ar):
                t = [name, *combo]
                new.append(t)
        # keep only trees not already present (depth exactly d+1 or re-generated ones)
        seen = {repr(t) for t in allt}
        allt = allt + [t for t in new if repr(t) not in seen]
    return allt


def _size(t):
    return 1 + sum(_size(a) for a in t[1:]) if is_app(t) else 1


def _enum_rhs(lhs, i):
    occ = var_occurrences(lhs)
    if occ:
        return ["f", 10 + i, {"v": occ[-1]}]
    return ["g", 10 + i]


def enum_single(tier):
    pats = _trees([1, 2, {"v": "x"}, {"v": "y"}], 2)
    if tier == "quick":
        terms = _trees([1, 2], 2)
    else:
        terms = [t for t in _trees([1, 2], 3) if _size(t) <= 7]
    for p in pats:
        rule = {"lhs": p, "rhs": _enum_rhs(p, 0)}
        for t in terms:
            yield {"rules": [rule], "term": t}


def enum_pairs(tier):
    pats = _trees([1, 2, {"v": "x"}, {"v": "y"}], 1)
    terms = _trees([1, 2], 2)
    for p in pats:
        for q in pats:
            rules = [{"lhs": p, "rhs": _enum_rhs(p, 0)}, {"lhs": q, "rhs": _enum_rhs(q, 1)}]
            for t in terms:
                yield {"rules": rules, "term": t}


# ---------------------------------------------------------------- random
_consts = st.one_of(st.sampled_from([0, 1, "a", "b"]), st.just({"t": [1, 2]}), st.just({"t": []}))
_vars = st.sampled_from([{"v": v} for v in VARS])


def _tree(leaf, maxdepth):
    """strategy of trees with fixed arities; constructed, never rejected"""

    @st.composite
    def s(draw, d=maxdepth):
        if d == 0 or draw(st.integers(0, 3)) == 0:
            return draw(leaf)
        name = draw(st.sampled_from(["f", "f", "g", "g", "h"]))
        return [name] + [draw(s(d - 1)) for _ in range(SIG[name][1])]

    return s()


_term_leaf = st.one_of(_consts, _consts, st.integers(0, 2).map(lambda n: {"u": n}))
# patterns: variables twice as likely as constants so that repeated variables are common
_pat_leaf = st.one_of(_vars, _vars, _consts)


def _generalize(draw, p):
    if draw(st.integers(0, 3)) == 0:
        return draw(_vars)
    if is_app(p):
        return [p[0]] + [_generalize(draw, a) for a in p[1:]]
    return p


@st.composite
def random_case(draw):
    nrules = draw(st.integers(1, 5))
    rules = []
    for j in range(nrules):
        kind = draw(st.integers(0, 9))
        if kind == 0:
            lhs = draw(_pat_leaf)  # bare variable or bare constant
        elif kind <= 3 and j > 0:
            # a generalisation of an earlier lhs (subtrees replaced by variables): several rules match one term
            lhs = _generalize(draw, draw(st.sampled_from(rules))["lhs"])
        else:
            name = draw(st.sampled_from(["f", "f", "g", "h"]))
            lhs = [name] + [draw(_tree(_pat_leaf, 2)) for _ in range(SIG[name][1])]
        occ = sorted(set(var_occurrences(lhs)))
        rk = draw(st.integers(0, 5))
        if rk == 0:
            rhs = {"call": "collect"}
        elif rk == 1 and occ:
            rhs = {"v": draw(st.sampled_from(occ))}
        else:
            rleaf = st.one_of(st.sampled_from([{"v": v} for v in occ]), _consts) if occ else _consts
            rhs = draw(_tree(rleaf, 2))
        rules.append({"lhs": lhs, "rhs": rhs})
    mode = draw(st.sampled_from([0, 1, 2, 2, 3]))
    if mode <= 2:
        # instantiate a rule's lhs: consistent (mode 0/1) or with independently drawn values per OCCURRENCE (mode 2)
        r = draw(st.sampled_from(rules))
        sub_t = _tree(_term_leaf, 1)
        b = {v: draw(sub_t) for v in VARS}
        if mode == 2:
            alt = {v: draw(sub_t) for v in VARS}
            flip = draw(st.integers(0, 7))
            counter = [0]

            def inst(p):
                if is_var(p):
                    counter[0] += 1
                    return (alt if (flip >> (counter[0] % 3)) & 1 else b)[p["v"]]
                if is_app(p):
                    return [p[0]] + [inst(a) for a in p[1:]]
                return p

            term = inst(r["lhs"])
        else:
            term = subst(r["lhs"], b)
    else:
        term = draw(_tree(_term_leaf, 3))
    return {"rules": rules, "term": term}


SUBCHECKS = [
    Sub(
        "enum_single",
        check,
        kind="enum",
        cases=enum_single,
        nontrivial=nontrivial,
        classes=classes,
        exhaustive=True,
        doc="every pattern of depth<=2 over {f/2,g/1,1,2,x,y} as a one-rule set x every ground term of depth<=2 (thorough: depth<=3, <=7 nodes)",
    ),
    Sub(
        "enum_pairs",
        check,
        kind="enum",
        cases=enum_pairs,
        nontrivial=nontrivial,
        classes=classes,
        exhaustive=True,
        doc="every ordered pair of patterns of depth<=1 as a two-rule set x every ground term of depth<=2",
    ),
    Sub(
        "random",
        check,
        strategy=lambda tier: random_case(),
        n={"quick": 4000, "thorough": 200000},
        nontrivial=nontrivial,
        classes=classes,
        doc="1-5 rules over {f/2,g/1,h/3}, repeated variables, callable rhs, unhashable term leaves, terms to depth 4",
    ),
]
