"""C20 — array indexing equals NumPy indexing (values, lazy shape and chunks)."""
from __future__ import annotations

import itertools

import numpy as np
from hypothesis import strategies as st

from vf import arrays as A
from vf.core import Reject, Sub, Violation, count, ensure, impl, reference, short
from vf.props import _arrcommon1 as C

PROPERTY = "C20"
PRELOAD = ["dask.array"]
LEVEL = "exploration"
RULE = (
    "enum-slice1d: EVERY slice(start, stop, step) with start,stop in {None,-n-2..n+2}, step in {None,+-1,+-2,+-3} on 1-d "
    "arrays of length 0..4 (thorough 0..5) under ALL chunkings; enum-take1d: every integer list of length<=3 (thorough 4) "
    "with entries in [-n,n-1] on axes of length 1..4 under all chunkings (as list / NumPy array / dask array); enum-take-perm: "
    "every ordered selection of 3 distinct positions of a length-6 axis under all 32 chunkings; enum-grid2d: "
    "a fixed set of 13 per-axis indices (ints, slices of both step signs, lists) in all pairs on a 3x3 array under all 16 "
    "chunkings; random: arrays of 0-3 dims (sides 1..6; zero-length axes in <=10% and explicit zero-size chunks in ~10% of the cases, as separate strata) indexed with "
    "random combinations of slices, ints (+-, Python/NumPy), None, Ellipsis, at most one 1-d integer indexer (sorted, "
    "unsorted, duplicates, negative, empty; list/NumPy/dask), 0-d integer arrays, 1-d boolean masks (list/NumPy/dask), "
    "full-shape masks (NumPy/dask, same or different chunking), a few out-of-bounds entries; vindex: point selection with "
    "broadcastable point arrays (optionally mixed with slices/ints); blocks: .blocks[...] with ints/slices/one list. "
    "Oracle: x_np[idx] (vindex mixed: arrays first, then slices, as documented; blocks: concatenation of the selected "
    "blocks); out-of-bounds => both raise IndexError; lazy shape/dtype/chunks equal the computed blocks (NaN chunks only "
    "for dask-boolean indexers, then checked after compute_chunk_sizes()). Non-trivial: a slice boundary coincides with "
    "an interior chunk boundary (non-empty selection) or an integer indexer touches >=2 chunks out of chunk order."
)
ASSUMPTIONS = [
    "NumPy indexing semantics are the reference; index kinds dask documents as unsupported (two or more array indexers in "
    "one [] expression, multi-dimensional integer indexers, dask indexers in vindex, None in vindex/blocks) are not "
    "generated, and an explicit NotImplementedError is counted as out-of-domain, not as a violation",
    "contents are arange so every element identifies its position",
    "length-1 axes split into several blocks by an explicit zero-size chunk are not generated (C19's listed finding "
    "broadcast-multiblock-len1-axis: chunk unification treats them as broadcast axes)",
    "vindex with slices follows the documented order (dimensions spanned by the point arrays first, then the slices)",
    "an integer and an array indexer separated by a slice/None/Ellipsis (NumPy moves the indexed dimension first) IS generated and "
    "compared with NumPy: docs/source/array-slicing.rst does not document a divergence; dask's in-place layout is the listed finding "
    "advanced-dim-not-moved-first, recognised only when the result equals NumPy's up to exactly that transposition",
    "zero-length axes and explicit zero-size chunks are separate low-probability strata (<= ~10 % of the random cases each; not in the "
    "exhaustive tiers except the length-0 array of enum-slice1d); length-1 axes with zero-size chunks are not explored",
    "every compute, including implicit ones inside dask (a dask scalar as slice bound), runs on the synchronous scheduler",
]
TECHNIQUE = "differential testing against NumPy: exhaustive slices/takes x all chunkings, Hypothesis-generated multi-axis indices"


# --------------------------------------------------------------------------
# comparison helpers


def compare(got, want, sig, what):
    """Computed value vs NumPy: a wrong shape is a wrong value (one symptom)."""
    g = np.asarray(got)
    w = np.asarray(want)
    if g.shape != w.shape:
        raise Violation(f"{what}: dask {A.describe(g)} != numpy {A.describe(w)}", "value-mismatch", **sig)
    A.same_array(g, w, what=what, sig=sig)


def compute_blocks(r):
    import dask

    dl = r.to_delayed()
    flat = list(np.asarray(dl, dtype=object).ravel())
    vals = dask.compute(*flat, scheduler="sync")
    return dl.shape, vals


def check_lazy(r, got, sig, what, nan_allowed):
    """Lazy shape/dtype/chunks agree with the computed value and with every computed block."""
    got = np.asarray(got)
    has_nan = any(np.isnan(c) for ch in r.chunks for c in ch)
    if has_nan:
        ensure(nan_allowed, f"{what}: unknown chunk sizes {r.chunks} for an index without dask boolean arrays", "unexpected-nan-chunks", **sig)
    ensure(r.dtype == got.dtype, f"{what}: lazy dtype {r.dtype} != computed {got.dtype}", "lazy-dtype-mismatch", **sig)
    ensure(r.ndim == got.ndim, f"{what}: lazy ndim {r.ndim} != computed {got.ndim}", "lazy-shape-mismatch", **sig)
    for ax, (ls, cs) in enumerate(zip(r.shape, got.shape)):
        if not np.isnan(ls):
            ensure(ls == cs, f"{what}: lazy shape {r.shape} != computed {got.shape}", "lazy-shape-mismatch", **sig)
    with impl(what + " (blocks)", **sig):
        grid, vals = compute_blocks(r)
    ensure(tuple(grid) == tuple(len(c) for c in r.chunks), f"{what}: numblocks {grid} vs chunks {r.chunks}", "lazy-chunks-mismatch", **sig)
    blocks = np.empty(grid, dtype=object)
    for idx, v in zip(np.ndindex(*grid), vals):
        v = np.asarray(v)
        blocks[idx] = v
        exp = tuple(r.chunks[ax][i] for ax, i in enumerate(idx))
        ok = v.ndim == len(exp) and all(np.isnan(e) or e == s for e, s in zip(exp, v.shape))
        ensure(ok, f"{what}: block {idx} has shape {v.shape} but chunks say {exp} (chunks={r.chunks})", "lazy-chunks-mismatch", **sig)
    whole = np.block(blocks.tolist()) if blocks.ndim else blocks[()]
    ensure(
        whole.shape == got.shape and np.array_equal(whole, got, equal_nan=got.dtype.kind in "fc"),
        f"{what}: blocks do not concatenate to the computed value",
        "blocks-vs-compute-mismatch",
        **sig,
    )
    if has_nan:
        with impl(what + " compute_chunk_sizes", **sig):
            r2 = r.compute_chunk_sizes()
        ensure(not any(np.isnan(c) for ch in r2.chunks for c in ch), f"{what}: chunks still unknown after compute_chunk_sizes: {r2.chunks}", "lazy-chunks-mismatch", **sig)
        ensure(tuple(r2.shape) == got.shape, f"{what}: shape after compute_chunk_sizes {r2.shape} != computed {got.shape}", "lazy-shape-mismatch", **sig)
        for idx in np.ndindex(*grid):
            exp = tuple(r2.chunks[ax][i] for ax, i in enumerate(idx))
            ensure(exp == blocks[idx].shape, f"{what}: after compute_chunk_sizes block {idx} is {blocks[idx].shape}, chunks say {exp}", "lazy-chunks-mismatch", **sig)


def both_raise_index_error(fn, want, sig, what):
    """NumPy raised IndexError (out of bounds / too many indices): dask must too
    (at graph construction or at compute time)."""
    try:
        r = fn()
        got = A.compute(r)
    except IndexError:
        return
    except NotImplementedError as e:
        count("rejected-notimplemented")
        raise Reject(f"dask refuses: {e}")
    except Exception as e:  # noqa: BLE001
        raise Violation(
            f"{what}: NumPy raises IndexError ({want}); dask raises {type(e).__name__}: {e}", f"oob-raises:{type(e).__name__}", **sig
        ) from e
    raise Violation(f"{what}: NumPy raises IndexError ({want}); dask returned {short(got)}", "accepts-out-of-bounds", **sig)


# --------------------------------------------------------------------------
# the three modes


def base_sig(case):
    arr = case["array"]
    items = case["index"]
    # for .blocks the indexed "array" is the grid of blocks
    lengths = [len(c) for c in arr["chunks"]] if case["mode"] == "blocks" else arr["shape"]
    return dict(
        mode=case["mode"],
        fancy=C.fancy_kind(items) if case["mode"] == "getitem" else "n/a",
        has_none=any(it["k"] == "none" for it in items),
        zero_chunk=A.has_zero_chunk(arr["chunks"]),
        neg_step_on_zero_chunk_axis=neg_step_on_zero_chunk_axis(items, arr, case["mode"]),
        neg_step_start_below_minus_n=vindex_neg_step(items, lengths) if case["mode"] == "vindex" else C.neg_step_start_below_minus_n(items, lengths),
    )


def vindex_neg_step(items, shape):
    for ax, it in enumerate(items):
        if it["k"] == "slice" and ax < len(shape):
            a, b, s = it["v"]
            if s is not None and s < 0 and a is not None and a < -shape[ax]:
                return True
    return False


def ints_da_equal_chunk_offsets(items, arr):
    """The dask integer indexer is from_array(<the chunk start offsets of its axis>, chunks=1): exactly the helper array
    that slice_with_int_dask_array_on_axis builds internally (same token => same name)."""
    for it, axes in zip(items, C.item_axes(items, len(arr["shape"]))):
        if it["k"] == "ints" and it["as"] == "da" and axes and axes[0] < len(arr["shape"]):
            ch = arr["chunks"][axes[0]]
            offsets = [0] + list(np.cumsum(ch)[:-1])
            if list(it["v"]) == [int(o) for o in offsets] and all(c == 1 for c in it["chunks"]):
                return True
    return False


def int_before_none(items):
    """An integer index is written before a None: the position of the new axis in the index differs from its position in
    the result (slice_with_newaxes keeps two position lists for that)."""
    seen_int = False
    for it in items:
        if it["k"] in ("int", "int0d"):
            seen_int = True
        elif it["k"] == "none" and seen_int:
            return True
    return False


def neg_step_on_zero_chunk_axis(items, arr, mode):
    if mode == "blocks":
        return False
    axes_of = [[ax] for ax in range(len(items))] if mode == "vindex" else C.item_axes(items, len(arr["shape"]))
    for it, axes in zip(items, axes_of):
        if it["k"] == "slice" and axes and axes[0] < len(arr["shape"]):
            s = it["v"][2]
            ch = arr["chunks"][axes[0]]
            if s is not None and s < 0 and len(ch) > 1 and 0 in ch:
                return True
    return False


def dask_position_of_advanced_dim(items, ndim):
    """Output position at which dask leaves the dimension of the (single) 1-d array indexer: the number of output
    dimensions produced by the items written before it."""
    p = 0
    for it, axes in zip(items, C.item_axes(items, ndim)):
        k = it["k"]
        if k in ("ints", "bools"):
            return p
        if k == "none":
            p += 1
        elif k in ("slice", "ellipsis"):
            p += len(axes)
    return 0


def check_getitem(case):
    arr = case["array"]
    items = case["index"]
    x = A.build_np(arr)
    d = A.build_da(arr, x)
    nidx, didx = C.build_index(items, arr["shape"], case.get("bare", False))
    sig = base_sig(case)
    sig["advanced_nonadjacent"] = C.advanced_nonadjacent(items)
    sig["none_with_dask_indexer"] = C.none_with_dask_indexer(items)
    sig["none_with_np_indexer"] = C.none_with_np_indexer(items)
    sig["int_before_none"] = int_before_none(items)
    sig["ints_da_equal_chunk_offsets"] = ints_da_equal_chunk_offsets(items, arr)
    what = f"x{arr['shape']}chunks={arr['chunks']}[{describe_index(items)}]"
    status, want = reference(lambda: x[nidx])
    if status == "err":
        if not isinstance(want, IndexError):
            raise Reject(f"NumPy rejects the index: {want}")
        return both_raise_index_error(lambda: d[didx], want, sig, what)
    with impl(what, **sig):
        try:
            r = d[didx]
        except NotImplementedError as e:
            count("rejected-notimplemented")
            raise Reject(f"dask refuses: {e}")
        got = A.compute(r)
    if sig["advanced_nonadjacent"]:
        # Narrow signature for the listed finding `advanced-dim-not-moved-first`: the values are right but the dimension
        # of the array indexer stays where it is written instead of moving to the front.  Anything else wrong in this
        # input class is still reported as an ordinary value-mismatch.
        p = dask_position_of_advanced_dim(items, len(arr["shape"]))
        g, w = np.asarray(got), np.asarray(want)
        if p and (g.shape != w.shape or not np.array_equal(g, w)):
            moved = np.moveaxis(w, 0, p) if w.ndim > p else w
            if g.shape == moved.shape and np.array_equal(g, moved):
                raise Violation(
                    f"{what}: dask keeps the indexed dimension in place (shape {g.shape}); NumPy moves it first (shape {w.shape})",
                    "advanced-dim-in-place",
                    **sig,
                )
    compare(got, want, sig, what)
    # unknown sizes are legitimate for dask boolean indexers, and for a full-shape NumPy mask of a >=2-d array, which
    # normalize_index documents as being converted to a dask array
    nan_allowed = any((it["k"] == "bools" and it["as"] == "da") or it["k"] == "mask" for it in items)
    check_lazy(r, got, sig, what, nan_allowed)


def vindex_parts(case):
    """-> (dask key, numpy oracle function)"""
    items = case["index"]
    nkey = []
    dkey = []
    for it in items:
        if it["k"] == "pts":
            a = np.asarray(it["v"], dtype=np.int64).reshape(it["shape"])
            nkey.append(a)
            dkey.append(a if it["as"] == "np" else a.tolist())
        else:
            n, d_ = C.build_item(it, None)
            nkey.append(n)
            dkey.append(d_)
    return tuple(nkey), tuple(dkey)


def vindex_oracle(x, nkey):
    nd = x.ndim
    key = list(nkey)
    if any(k is Ellipsis for k in key):
        pos = next(i for i, k in enumerate(key) if k is Ellipsis)
        key = key[:pos] + [slice(None)] * (nd - (len(key) - 1)) + key[pos + 1 :]
    key = key + [slice(None)] * (nd - len(key))
    nonfancy = tuple(slice(None) if isinstance(k, np.ndarray) else k for k in key)
    x1 = x[nonfancy]
    rest = [k for k in key if not isinstance(k, (int, np.integer))]
    arr_axes = [i for i, k in enumerate(rest) if isinstance(k, np.ndarray)]
    arrays = [k for k in rest if isinstance(k, np.ndarray)]
    x2 = np.moveaxis(x1, arr_axes, list(range(len(arr_axes))))
    return x2[tuple(arrays)]


def vindex_has_oob(case):
    shape = case["array"]["shape"]
    for ax, it in enumerate(case["index"]):
        if it["k"] == "pts" and ax < len(shape):
            n = shape[ax]
            if any(v >= n or v < -n for v in it["v"]):
                return True
    return False


def check_vindex(case):
    arr = case["array"]
    x = A.build_np(arr)
    d = A.build_da(arr, x)
    nkey, dkey = vindex_parts(case)
    sig = base_sig(case)
    sig["vindex_mixed"] = any(it["k"] != "pts" for it in case["index"])
    sig["vindex_zero_length_axis"] = any(it["k"] == "pts" and ax < len(arr["shape"]) and arr["shape"][ax] == 0 for ax, it in enumerate(case["index"]))
    what = f"x{arr['shape']}chunks={arr['chunks']}.vindex[{describe_index(case['index'])}]"
    status, want = reference(vindex_oracle, x, nkey)
    if status == "err":
        if not isinstance(want, IndexError):
            raise Reject(f"NumPy rejects the index: {want}")
        return both_raise_index_error(lambda: d.vindex[dkey], want, sig, what)
    with impl(what, **sig):
        try:
            r = d.vindex[dkey]
        except IndexError as e:
            # NumPy does not bounds-check point arrays whose broadcast result is empty; dask checks every point array
            # eagerly.  Refusing an out-of-range point is not a wrong answer.
            if vindex_has_oob(case):
                count("rejected-oob-point-numpy-does-not-check")
                raise Reject(str(e))
            raise
        got = A.compute(r)
    compare(got, want, sig, what)
    check_lazy(r, got, sig, what, nan_allowed=False)


def check_blocks(case):
    arr = case["array"]
    x = A.build_np(arr)
    d = A.build_da(arr, x)
    items = case["index"]
    nidx, didx = C.build_index(items, None, case.get("bare", False))
    sig = base_sig(case)
    what = f"x{arr['shape']}chunks={arr['chunks']}.blocks[{describe_index(items)}]"
    chunks = arr["chunks"]
    nb = [len(c) for c in chunks]

    def oracle():
        key = nidx if isinstance(nidx, tuple) else (nidx,)
        if len(key) > len(nb):
            raise IndexError("too many indices")
        key = tuple(key) + (slice(None),) * (len(nb) - len(key))
        pos = []
        new_chunks = []
        for ax, k in enumerate(key):
            ids = np.arange(nb[ax])[k]  # IndexError when out of bounds
            ids = np.atleast_1d(ids)
            starts = np.concatenate([[0], np.cumsum(chunks[ax])])
            p = [np.arange(starts[i], starts[i + 1]) for i in ids]
            pos.append(np.concatenate(p).astype(np.intp) if p else np.zeros(0, dtype=np.intp))
            new_chunks.append(tuple(int(chunks[ax][i]) for i in ids))
        return x[np.ix_(*pos)], tuple(new_chunks)

    status, res = reference(oracle)
    if status == "err":
        if not isinstance(res, IndexError):
            raise Reject(f"reference rejects the index: {res}")
        return both_raise_index_error(lambda: d.blocks[didx], res, sig, what)
    want, want_chunks = res
    if any(len(c) == 0 for c in want_chunks):
        # an array with zero blocks along an axis is not representable (chunks may not be an empty tuple); dask refuses
        # with ValueError, which is not a wrong answer
        count("rejected-empty-block-selection")
        raise Reject("selection of zero blocks")
    with impl(what, **sig):
        r = d.blocks[didx]
        got = A.compute(r)
    compare(got, want, sig, what)
    ensure(
        tuple(tuple(c) for c in r.chunks) == want_chunks, f"{what}: chunks {r.chunks}, selected blocks have {want_chunks}", "lazy-chunks-mismatch", **sig
    )
    check_lazy(r, got, sig, what, nan_allowed=False)


def check(case):
    import dask

    try:
        # implicit computes inside dask (a dask scalar used as a slice bound, bool(dask array), ...) must use the synchronous
        # scheduler as well: committed replays run in the parent process, and a thread pool created there before the
        # worker pool forks leaves the workers with a pool that has no threads (they would wait forever)
        with dask.config.set(scheduler="synchronous"):
            return _check(case)
    except Violation as v:
        # `raises` separates crashes from wrong answers in known-finding matches that cannot name a single exception type
        v.sig["raises"] = str(v.sig.get("symptom", "")).startswith(("raises:", "oob-raises:"))
        raise


def _check(case):
    mode = case["mode"]
    if mode == "getitem":
        return check_getitem(case)
    if mode == "vindex":
        return check_vindex(case)
    if mode == "blocks":
        return check_blocks(case)
    raise ValueError(mode)


def describe_index(items):
    out = []
    for it in items:
        k = it["k"]
        if k == "slice":
            a, b, s = it["v"]
            out.append(f"{'' if a is None else a}:{'' if b is None else b}" + ("" if s is None else f":{s}"))
        elif k == "int":
            out.append(str(it["v"]))
        elif k == "none":
            out.append("None")
        elif k == "ellipsis":
            out.append("...")
        elif k in ("ints", "bools"):
            out.append(f"{it['as']}{it['v']}")
        elif k == "int0d":
            out.append(f"{it['as']}0d({it['v']})")
        elif k == "mask":
            out.append(f"{it['as']}mask(seed={it['seed']},p={it['p']})")
        elif k == "pts":
            out.append(f"pts{it['shape']}{it['v']}")
    return ", ".join(out)


# --------------------------------------------------------------------------
# non-triviality and classes


def nontrivial(case):
    arr = case["array"]
    items = case["index"]
    shape, chunks = arr["shape"], arr["chunks"]
    if case["mode"] == "getitem":
        return C.index_nontrivial(items, shape, chunks)
    if case["mode"] == "vindex":
        ax = 0
        for it in items:
            if it["k"] == "ellipsis":
                return False  # (kept simple: the generator puts Ellipsis only rarely)
            if it["k"] == "pts" and ax < len(shape) and shape[ax] > 0:
                n = shape[ax]
                pos = [v + n if v < 0 else v for v in it["v"]]
                if all(0 <= p < n for p in pos):
                    ids = C.chunk_ids(pos, chunks[ax])
                    if len(set(ids)) >= 2 and ids != sorted(ids):
                        return True
            ax += 1
        return False
    # blocks: the block grid plays the role of the array (every grid cell is a chunk boundary)
    grid = [len(c) for c in chunks]
    for ax, it in enumerate(items):
        if ax >= len(grid):
            break
        if it["k"] == "slice":
            ids = list(range(grid[ax]))[slice(*it["v"])]
            if len(ids) >= 1 and len(ids) < grid[ax]:
                return True
        if it["k"] == "ints" and len(it["v"]) >= 2:
            return True
    return False


def classes(case):
    arr = case["array"]
    items = case["index"]
    yield "mode-" + case["mode"]
    yield f"ndim-{len(arr['shape'])}"
    if A.has_zero_chunk(arr["chunks"]):
        yield "zero-size-chunk"
    if 0 in arr["shape"]:
        yield "zero-length-axis"
    for it in items:
        k = it["k"]
        if k == "slice":
            s = it["v"][2]
            yield "slice-neg-step" if (s is not None and s < 0) else "slice-pos-step"
        elif k in ("ints", "bools", "mask", "int0d"):
            yield f"{k}-{it['as']}"
            if k == "ints":
                v = it["v"]
                if not v:
                    yield "ints-empty"
                elif len(set(v)) < len(v):
                    yield "ints-duplicates"
                if any(a < 0 for a in v):
                    yield "ints-negative"
                if v != sorted(v):
                    yield "ints-unsorted"
        else:
            yield k
    if case["mode"] == "getitem":
        if C.advanced_nonadjacent(items):
            yield "advanced-nonadjacent"
        if C.neg_step_start_below_minus_n(items, arr["shape"]):
            yield "neg-step-start-below-minus-n"


# --------------------------------------------------------------------------
# exhaustive sub-checks


def arange_spec(shape, chunks, dtype="i8"):
    return {"shape": list(shape), "dtype": dtype, "seed": 0, "fill": "arange", "chunks": [list(c) for c in chunks]}


def enum_slice1d(tier):
    nmax = 4 if tier == "quick" else 5
    steps = [None, 1, -1, 2, -2, 3, -3]
    for n in range(nmax + 1):
        bounds = [None] + list(range(-n - 2, n + 3))
        for ch in A.all_chunkings([n]):
            for a, b, s in itertools.product(bounds, bounds, steps):
                yield {"array": arange_spec([n], ch), "mode": "getitem", "index": [{"k": "slice", "v": [a, b, s]}], "bare": True}


def enum_take1d(tier):
    kmax = 3 if tier == "quick" else 4
    i = 0
    for n in range(1, 5):
        vals = list(range(-n, n))
        for ch in A.all_chunkings([n]):
            for k in range(0, kmax + 1):
                for v in itertools.product(vals, repeat=k):
                    i += 1
                    as_ = ("list", "np", "da")[i % 3]
                    item = {"k": "ints", "v": list(v), "as": as_}
                    if as_ == "da":
                        # alternate between one chunk and unit chunks for the indexer
                        item["chunks"] = [len(v)] if (i // 3) % 2 or not v else [1] * len(v)
                    yield {"array": arange_spec([n], ch), "mode": "getitem", "index": [item], "bare": bool(i % 2)}


def enum_take_perm(tier):
    """Ordered selections of 3 (thorough: also 4) distinct positions of a length-6 axis: the smallest size at which
    take() merges pieces of several source chunks into one output chunk and has to restore a non-involutive order."""
    n = 6
    i = 0
    for ch in A.all_chunkings([n]):
        for k in (3,) if tier == "quick" else (3, 4):
            for v in itertools.permutations(range(n), k):
                i += 1
                item = {"k": "ints", "v": list(v), "as": "np" if i % 2 else "list"}
                yield {"array": arange_spec([n], ch), "mode": "getitem", "index": [item], "bare": bool(i % 3)}


def enum_wide(tier):
    """Long axes: in-chunk offsets and chunk numbers beyond 255 (and, once, beyond 65535), where an index array narrowed
    to a small unsigned dtype from the wrong bound would wrap around.  Irregular chunkings with a short first or last
    chunk; points on both sides of every chunk boundary, at offsets 255/256/257 inside a long chunk, and at the ends."""
    layouts = [(700, [[100, 600]]), (700, [[600, 100]]), (700, [[3, 297, 400]]), (700, [[700]]), (700, [[1] * 300 + [400]])]
    if tier != "quick":
        layouts += [(70000, [[10, 69990]]), (70000, [[69990, 10]]), (70000, [[200, 69800]])]
    i = 0
    for n, ch in layouts:
        bounds = sorted({0, n - 1, *(b + o for b in itertools.accumulate(ch[0]) for o in (-1, 0, 1) if 0 <= b + o < n)})
        first = ch[0][0]
        probes = sorted({*bounds, *(first + o for o in (254, 255, 256, 257, 300, 511, 512) if first + o < n), *(o for o in (255, 256, 257) if o < n), n // 2})
        if n > 65536:
            probes = sorted({*probes, *(first + o for o in (65535, 65536, 65537) if first + o < n)})
        sels = [probes, probes[::-1], [p - n for p in probes], probes[::2] + probes[1::2]]
        for v in sels:
            for as_ in ("np", "list"):
                i += 1
                yield {"array": arange_spec([n], ch), "mode": "vindex", "index": [{"k": "pts", "v": list(v), "shape": [len(v)], "as": as_}]}
                yield {"array": arange_spec([n], ch), "mode": "getitem", "index": [{"k": "ints", "v": list(v), "as": as_}], "bare": bool(i % 2)}
        yield {"array": arange_spec([n], ch), "mode": "getitem", "index": [{"k": "ints", "v": probes, "as": "da", "chunks": [len(probes)]}], "bare": True}
        for a, b, st_ in ((250, 262, None), (None, None, -1), (n - 1, 250, -3), (255, None, 2)):
            yield {"array": arange_spec([n], ch), "mode": "getitem", "index": [{"k": "slice", "v": [a, b, st_]}], "bare": True}
        # 2-d: points on both axes / points x slice / transposed layout
        for sh, c2 in (([n, 2], [ch[0], [1, 1]]), ([2, n], [[2], ch[0]])):
            ax = 0 if sh[0] == n else 1
            k = len(probes)
            other = [j % 2 for j in range(k)]
            pts = [None, None]
            pts[ax] = {"k": "pts", "v": probes, "shape": [k], "as": "np"}
            pts[1 - ax] = {"k": "pts", "v": other, "shape": [k], "as": "np"}
            yield {"array": arange_spec(sh, c2), "mode": "vindex", "index": pts}
            mixed = [None, None]
            mixed[ax] = {"k": "pts", "v": probes[::-1], "shape": [k], "as": "list"}
            mixed[1 - ax] = {"k": "slice", "v": [None, None, None]}
            yield {"array": arange_spec(sh, c2), "mode": "vindex", "index": mixed}
            g = [None, None]
            g[ax] = {"k": "ints", "v": probes, "as": "np"}
            g[1 - ax] = {"k": "int", "v": 1}
            yield {"array": arange_spec(sh, c2), "mode": "getitem", "index": g}


GRID_AXIS_INDICES = [
    {"k": "int", "v": 0},
    {"k": "int", "v": -1},
    {"k": "int", "v": 1},
    {"k": "slice", "v": [None, None, None]},
    {"k": "slice", "v": [1, None, None]},
    {"k": "slice", "v": [None, 2, None]},
    {"k": "slice", "v": [None, None, -1]},
    {"k": "slice", "v": [2, 0, -1]},
    {"k": "slice", "v": [None, None, 2]},
    {"k": "slice", "v": [-1, None, -2]},
    {"k": "slice", "v": [1, 1, None]},
    {"k": "ints", "v": [2, 0], "as": "list"},
    {"k": "ints", "v": [1, 1, -3], "as": "np"},
]


def enum_grid2d(tier):
    shape = [3, 3]
    for ch in A.all_chunkings(shape):
        for a, b in itertools.product(GRID_AXIS_INDICES, repeat=2):
            if a["k"] == "ints" and b["k"] == "ints":
                continue  # two array indexers: documented as unsupported
            yield {"array": arange_spec(shape, ch), "mode": "getitem", "index": [a, b]}


# --------------------------------------------------------------------------
# random sub-checks

FULL = {"k": "slice", "v": [None, None, None]}


@st.composite
def getitem_case(draw):
    if C.chance(draw, 10):
        # full-shape mask.  x[mask] ravels x first; reshape of arrays with empty chunks / zero-length axes split into
        # several blocks fails inside dask.array.reshape (C24's subject), so those arrays are not combined with masks here
        arr = draw(C.array_st(zero_chunk_pct=0, min_dims=1, max_dims=3, min_side=1, max_side=5, dtypes=("i8", "f8"), fills=("arange",)))
        item = draw(C.mask_item_st(arr["shape"], arr["chunks"]))
        return {"array": arr, "mode": "getitem", "index": [item], "bare": draw(st.booleans())}
    # (zero-length axes are a low-probability stratum: ~10 % of the cases may draw one)
    arr = draw(C.array_st(min_dims=0, max_dims=3, min_side=0 if C.chance(draw, 10) else 1, max_side=6, dtypes=("i8", "f8"), fills=("arange",)))
    shape, chunks = arr["shape"], arr["chunks"]
    nd = len(shape)
    fancy_axis = draw(st.integers(0, nd - 1)) if nd and C.chance(draw, 55) else None
    items = []
    for ax, n in enumerate(shape):
        if ax == fancy_axis:
            kind = draw(st.sampled_from(["ints"] * 6 + ["bools"] * 3 + ["int0d"]))
            if kind == "ints":
                items.append(draw(C.ints_item_st(n)))
            elif kind == "bools":
                items.append(draw(C.bools_item_st(n, chunks_like=chunks[ax])))
            else:
                it = draw(C.int_item_st(n, oob=0.03))
                items.append({"k": "int0d", "v": it["v"], "as": draw(st.sampled_from(["da", "da", "np"]))})
        else:
            kind = draw(st.sampled_from(["slice"] * 11 + ["int"] * 5 + ["full"] * 4))
            if kind == "slice":
                items.append(draw(C.slice_item_st(n)))
            elif kind == "int":
                items.append(draw(C.int_item_st(n)))
            else:
                items.append(dict(FULL))
    items = C.add_structure(draw, items)
    return {"array": arr, "mode": "getitem", "index": items, "bare": len(items) == 1 and draw(st.booleans())}


@st.composite
def vindex_case(draw):
    # (zero-length axes only occasionally: every point selection on them hits the vindex-zero-length-axis finding)
    arr = draw(C.array_st(min_dims=1, max_dims=3, min_side=draw(st.sampled_from([1] * 9 + [0])), max_side=6, dtypes=("i8", "f8"), fills=("arange",)))
    shape = arr["shape"]
    nd = len(shape)
    pure = C.chance(draw, 60)
    # (0-d NumPy point arrays are not generated: _vindex_array calls len() on them and raises TypeError; 0-d points are
    # spelled as integers, which vindex accepts)
    bshape = draw(st.sampled_from([[1], [2], [3], [5], [0], [2, 2], [3, 1], [1, 4], [2, 1, 2]]))
    if any(n == 0 for n in shape) and pure:
        bshape = [0]  # no valid point exists on an empty axis
    kinds = []
    for ax in range(nd):
        kinds.append("pts" if pure else draw(st.sampled_from(["pts", "pts", "slice", "int", "full"])))
    if "pts" not in kinds:
        kinds[draw(st.integers(0, nd - 1))] = "pts"
    items = []
    for ax, (kind, n) in enumerate(zip(kinds, shape)):
        if kind == "pts":
            # a shape broadcastable to bshape
            k = draw(st.integers(1, len(bshape)))
            shp = [1 if (s != 1 and C.chance(draw, 20)) else s for s in bshape[len(bshape) - k :]]
            if n == 0:
                shp = [0] if not shp else [0 if j == 0 else s for j, s in enumerate(shp)]
            size = int(np.prod(shp)) if shp else 1
            v = [draw(st.integers(-n, n - 1)) for _ in range(size)] if n else []
            if v and C.chance(draw, 3):
                v[draw(st.integers(0, len(v) - 1))] = draw(st.sampled_from([n, -n - 1]))
            # (a nested list cannot spell an empty array of >= 2 dims: it would change the shape)
            as_ = "np" if (0 in shp and len(shp) > 1) else draw(st.sampled_from(["np", "list"]))
            items.append({"k": "pts", "v": v, "shape": shp, "as": as_})
        elif kind == "slice":
            items.append(draw(C.slice_item_st(n)))
        elif kind == "int":
            items.append(draw(C.int_item_st(n, oob=0.02)))
        else:
            items.append(dict(FULL))
    if C.chance(draw, 25):
        while items and items[-1] == FULL:
            items.pop()
        if not any(it["k"] == "pts" for it in items):
            items = items or [dict(FULL)]
    return {"array": arr, "mode": "vindex", "index": items}


@st.composite
def blocks_case(draw):
    arr = draw(C.array_st(min_dims=1, max_dims=3, min_side=0 if C.chance(draw, 10) else 1, max_side=6, dtypes=("i8", "f8"), fills=("arange",)))
    grid = [len(c) for c in arr["chunks"]]
    nd = len(grid)
    list_axis = draw(st.integers(0, nd - 1)) if C.chance(draw, 33) else None
    items = []
    for ax, n in enumerate(grid):
        if ax == list_axis:
            items.append(draw(C.ints_item_st(n, kinds=("list", "np"), oob=0.03)))
        else:
            kind = draw(st.sampled_from(["slice", "slice", "int", "full"]))
            if kind == "slice":
                # (mostly non-empty selections: an empty selection of blocks is out of domain, see check_blocks)
                sl = C.slice_item_st(n, wide=False)
                items.append(draw(st.one_of(sl.filter(lambda it, n=n: len(range(*slice(*it["v"]).indices(n))) > 0), sl)))
            elif kind == "int":
                items.append(draw(C.int_item_st(n, oob=0.03)))
            else:
                items.append(dict(FULL))
    if draw(st.booleans()):
        while len(items) > 1 and items[-1] == FULL:
            items.pop()
    return {"array": arr, "mode": "blocks", "index": items, "bare": len(items) == 1 and draw(st.booleans())}


def random_case():
    return st.one_of(getitem_case(), getitem_case(), getitem_case(), vindex_case(), blocks_case())


SUBCHECKS = [
    Sub(
        "enum-slice1d",
        check,
        kind="enum",
        cases=enum_slice1d,
        nontrivial=nontrivial,
        classes=classes,
        exhaustive=True,
        doc="every slice(start,stop,step), start/stop in {None,-n-2..n+2}, step in {None,+-1,+-2,+-3}, 1-d length 0..4 (thorough 0..5), all chunkings",
    ),
    Sub(
        "enum-take1d",
        check,
        kind="enum",
        cases=enum_take1d,
        nontrivial=nontrivial,
        classes=classes,
        exhaustive=True,
        doc="every integer list of length <=3 (thorough 4) over [-n,n-1], 1-d length 1..4, all chunkings; list/NumPy/dask indexer in rotation",
    ),
    Sub(
        "enum-take-perm",
        check,
        kind="enum",
        cases=enum_take_perm,
        nontrivial=nontrivial,
        classes=classes,
        exhaustive=True,
        doc="every ordered selection of 3 (thorough: 3 and 4) distinct positions of a length-6 axis under all 32 chunkings",
    ),
    Sub(
        "enum-grid2d",
        check,
        kind="enum",
        cases=enum_grid2d,
        nontrivial=nontrivial,
        classes=classes,
        exhaustive=True,
        doc="13 representative per-axis indices in all pairs on a 3x3 array under all 16 chunkings",
    ),
    Sub(
        "enum-wide",
        check,
        kind="enum",
        cases=enum_wide,
        nontrivial=nontrivial,
        classes=classes,
        exhaustive=True,
        doc="axes of length 700 (thorough: also 70000) under irregular chunkings with a short first/last chunk or 300 unit chunks: point selection (vindex, 1-d and 2-d), integer-array getitem and strided slices probing offsets and chunk numbers around 255/256 (65535/65536) and every chunk boundary",
    ),
    Sub(
        "random",
        check,
        strategy=lambda tier: random_case(),
        n={"quick": 5000, "thorough": 120000},
        nontrivial=nontrivial,
        classes=classes,
        doc="random multi-axis getitem (60%), vindex (20%), blocks (20%) cases",
    ),
]
