"""C43 — the DataFrame optimizer preserves results and converges.

Anchors: dask/_expr.py (Expr.simplify / optimize_until), dask/dataframe/dask_expr/_expr.py (projection and
filter pushdown, optimize_blockwise_fusion), _concat.py, _merge.py, _repartition.py (their _simplify_up rules).
"""
from __future__ import annotations

import pandas as pd
from hypothesis import strategies as st

from vf import frames as F
from vf.core import Reject, Sub, count, ensure, impl, reference
from vf.props import _dfcommon2 as C
from vf.props import _dfcommon3 as D

PROPERTY = "C43"
PRELOAD = ["dask.dataframe"]
LEVEL = "exploration"
RULE = (
    "hyp: programs of 1-6 steps over a frame (2-25 rows; key column k plus int/float columns; unique sorted index; "
    "from_pandas(npartitions|chunksize) or value based split, known divisions) and a small second frame. Every step "
    "reads an EARLIER variable (so variables are shared by several consumers: DAG, not chain): filter (col cmp const), "
    "filter with a reduction inside the predicate (col cmp col.mean()/min()/max()), conjunction of two predicates, disjunctions of conjunctions that share atoms ((A&B)|(A&C)|D), "
    "projection, assign (col op col | col op const | col - col.reduction(); the name may SHADOW an existing column, also one "
    "used by an earlier filter), drop, repartition, loc slice, reset_index, groupby(k).agg, merge with the second frame "
    "below later projections/filters, concat with another variable or the second frame, optional final reduction. "
    "Oracle: the same program on pandas == unsimplified lowering (lower_completely, graph computed as is) == "
    "expr.optimize() graph == optimize() applied twice == the user path compute(); any exception of optimize() "
    "(incl. 'Optimizer does not converge') is a violation. Row order/index are compared exactly unless the program "
    "contains merge/concat (multiset) or reset_index/groupby (index ignored). "
    "Non-trivial: >= 2 steps, one of which uses its input frame more than once (predicate/assign built from the same "
    "variable, reduction inside a predicate, or a variable consumed by two steps)."
)
ASSUMPTIONS = [
    "pandas running the same program is the reference; merge/concat results are compared as multisets, and the index is "
    "ignored after reset_index/groupby (dask documents per-partition RangeIndexes there)",
    "arithmetic is limited to + - and * const so that int64 never overflows; no division",
    "dtypes must equal pandas' unless dask's own meta announces the computed dtype (DESIGN 4.4)",
]
TECHNIQUE = "differential testing of Hypothesis-generated DAG-shaped dataframe programs: pandas vs unsimplified lowering vs optimized vs re-optimized"

CMP = {">": "__gt__", "<": "__lt__", ">=": "__ge__", "<=": "__le__"}
SHARED = ("filter_red", "filter_and", "filter_dnf", "assign")


class _Skip(Exception):
    pass


def _num(df, is_dask):
    dt = df.dtypes
    return [c for c in df.columns if dt[c].kind in "if"]


def _pick(res, key, options, i):
    """Column choices are resolved on the pandas pass and replayed verbatim on the dask pass."""
    if key not in res:
        if not options:
            raise _Skip
        res[key] = options[i % len(options)]
    return res[key]


def _pred(df, res, tag, p, is_dask):
    c = _pick(res, tag, _num(df, is_dask), p["col"])
    rhs = getattr(df[c], p["red"])() if p.get("red") else p["thr"]
    return getattr(df[c], CMP[p["cmp"]])(rhs)


def apply_step(step, vals, st_, is_dask, res):
    import dask.dataframe as dd

    op = step["op"]
    df = vals[step["src"] % len(vals)]
    if op in ("filter", "filter_red"):
        return df[_pred(df, res, "c", step, is_dask)]
    if op == "filter_and":
        return df[_pred(df, res, "c1", step["p1"], is_dask) & _pred(df, res, "c2", step["p2"], is_dask)]
    if op == "filter_dnf":
        # (A & B) | (A & C) | D ...: clauses share atoms, which the optimizer factors out of the disjunction
        atoms = [_pred(df, res, f"d{j}", a, is_dask) for j, a in enumerate(step["atoms"])]
        mask = None
        for clause in step["clauses"]:
            m = None
            for j in clause:
                m = atoms[j % len(atoms)] if m is None else m & atoms[j % len(atoms)]
            mask = m if mask is None else mask | m
        return df[mask]
    if op == "project":
        cols = list(df.columns)
        keep = res.setdefault("keep", [c for i, c in enumerate(cols) if step["mask"] >> i & 1] or cols[:1])
        return df[keep]
    if op == "assign":
        nums = _num(df, is_dask)
        a = _pick(res, "a", nums, step["a"])
        if step["kind"] == "colcol":
            val = getattr(df[a], step["f"])(df[_pick(res, "b", nums, step["b"])])
        elif step["kind"] == "const":
            val = getattr(df[a], step["f"])(step["k"])
        else:
            val = df[a] - getattr(df[a], step["red"])()
        name = res.setdefault("name", list(df.columns)[step["shadow"] % len(df.columns)] if step["shadow"] is not None else f"n{len(vals)}")
        return df.assign(**{name: val})
    if op == "astype":
        # a (possibly narrowing) cast of one numeric column: a later filter on it must see the CONVERTED values
        return df.astype({_pick(res, "c", _num(df, is_dask), step["col"]): step["to"]})
    if op == "drop":
        cols = list(df.columns)
        if len(cols) < 2:
            raise _Skip
        return df.drop(columns=[_pick(res, "c", cols, step["col"])])
    if op == "repartition":
        return df.repartition(npartitions=step["n"]) if is_dask else df
    if op == "loc":
        if st_["noloc"]:
            raise _Skip
        iv = st_["index_vals"]
        a, b = sorted([iv[step["a"] % len(iv)], iv[step["b"] % len(iv)]])
        return df.loc[a:b]
    if op == "reset_index":
        if st_["noloc"]:
            raise _Skip  # (a second reset_index would clash with the existing 'index' column in pandas itself)
        st_.update(noloc=True, ignore_index=True)
        return df.reset_index()
    if op == "groupby":
        if "k" not in df.columns:
            raise _Skip
        c = _pick(res, "c", [x for x in _num(df, is_dask) if x != "k"], step["col"])
        st_.update(noloc=True, ignore_index=True)
        return df.groupby("k", sort=True)[c].agg(step["agg"]).reset_index()  # sort=True: without it dask promises no group order
    if op == "merge":
        if "k" not in df.columns or set(df.columns) & {"r", "s"}:
            raise _Skip
        st_.update(noloc=True, ignore_index=True, unordered=True)
        return df.merge(st_["other"][is_dask], on="k", how=step["how"])
    if op == "concat":
        other = st_["other"][is_dask] if step["with"] is None else vals[step["with"] % len(vals)]
        st_.update(noloc=True, unordered=True)
        return dd.concat([df, other], interleave_partitions=True) if is_dask else pd.concat([df, other])
    raise ValueError(op)


def run(spec, src, other, is_dask, resolved):
    """Interpret the program; ``resolved[i]`` holds the column choices of step i (filled by the pandas pass)."""
    st_ = dict(noloc=False, ignore_index=False, unordered=False, index_vals=spec["_index_vals"], other=other)
    vals = [src]
    for i, step in enumerate(spec["steps"]):
        res = resolved.setdefault(i, {})
        if res.get("skip"):
            continue
        try:
            vals.append(apply_step(step, vals, st_, is_dask, res))
        except _Skip:
            ensure(not is_dask, "interpreter: step skipped on the dask pass only", "harness")
            res["skip"] = True
    out = vals[-1]
    fin = spec.get("final")
    if fin and len(_num(out, is_dask)):
        c = _pick(resolved.setdefault("final", {}), "c", _num(out, is_dask), fin["col"])
        out = getattr(out[c], fin["red"])()
    return out, st_


def graph_compute(expr):
    """Compute an expression's graph exactly as it is (no further optimisation) and concatenate the partitions."""
    from dask.local import get_sync

    parts = list(get_sync(expr.__dask_graph__(), expr.__dask_keys__()))
    frames = [p for p in parts if isinstance(p, (pd.DataFrame, pd.Series))]
    if len(frames) != len(parts):
        ensure(len(parts) == 1, f"{len(parts)} non-frame outputs", "shape")
        return parts[0]
    nonempty = [p for p in frames if len(p)]
    return pd.concat(nonempty) if nonempty else frames[0]


def flags(spec, resolved):
    ops = {s["op"] for i, s in enumerate(spec["steps"]) if not resolved.get(i, {}).get("skip")}
    red = any(s.get("red") or s.get("p1", {}).get("red") or s.get("p2", {}).get("red") or s.get("kind") == "red" for s in spec["steps"])
    # signature flag (no comparison depends on it): a projection that drops the former index column of a frame that
    # (by dataflow) comes out of a reset_index step - the shape of finding resetindex-projection-filter-*
    derived, index_projected_away = [False], False
    for i, s in enumerate(spec["steps"]):
        r = resolved.get(i, {})
        if r.get("skip"):
            continue
        d = derived[s["src"] % len(derived)] or s["op"] == "reset_index"
        if s["op"] == "project" and d and "keep" in r and "index" not in r["keep"]:
            index_projected_away = True
        derived.append(d)
    return dict(concat="concat" in ops, merge="merge" in ops, reset_index=bool(ops & {"reset_index", "groupby"}), groupby="groupby" in ops, loc="loc" in ops, repartition="repartition" in ops, red=bool(red or spec.get("final")), index_projected_away=index_projected_away)


def check(spec):
    with C.quiet():
        pdf = F.build_pdf(spec["frame"])
        pdf2 = F.build_pdf(spec["frame2"])[["k", "r", "s"]]
        src = C.build_ddf(spec["frame"], pdf)
        src2 = C.build_ddf(spec["frame2"], F.build_pdf(spec["frame2"]))[["k", "r", "s"]]
    spec = dict(spec, _index_vals=list(pdf.index))
    resolved = {}
    with C.quiet():
        status, ref = reference(run, spec, pdf, (pdf2, src2), False, resolved)
    if status == "err":
        if isinstance(ref, Exception) and type(ref).__name__ == "Violation":
            raise ref
        raise Reject(f"pandas rejects the program: {type(ref).__name__}: {ref}")
    want, st_ = ref
    sig = flags(spec, resolved)
    with impl("building the dask program", stage="build", **sig), C.quiet():
        ddf, _ = run(spec, src, (pdf2, src2), True, resolved)
        meta = ddf._meta
    results = {}
    with impl("lower_completely (no simplify)", stage="lowered", **sig), C.quiet():
        results["lowered"] = graph_compute(ddf.expr.lower_completely())
    with impl("optimize()", stage="optimize", **sig), C.quiet():
        opt = ddf.expr.optimize()
    if opt._name != ddf.expr._name:
        count("optimize-changed-tree")
    with impl("computing the optimized expression", stage="optimized", **sig), C.quiet():
        results["optimized"] = graph_compute(opt)
    with impl("compute()", stage="compute", **sig), C.quiet():
        results["compute"] = F.compute(ddf)
    with impl("optimize() of the optimized expression", stage="reoptimize", **sig), C.quiet():
        results["reoptimize"] = graph_compute(opt.optimize())
    for stage, got in results.items():
        s = dict(sig, stage=stage)
        what = f"{stage} result of {[x['op'] for x in spec['steps']]}"
        if not isinstance(want, (pd.DataFrame, pd.Series)):
            ensure(F._scalar_eq(got, want, 1e-9), f"{what}: scalar {got!r} != pandas {want!r}", "value-mismatch", **s)
            continue
        ensure(isinstance(got, pd.DataFrame), f"{what}: {type(got).__name__}", "type-mismatch", **s)
        # values vs pandas; dtypes are judged below (meta=got switches the helpers' pandas-dtype clause off)
        if st_["unordered"]:
            C.same_rows(got, want, what=what, sig=s, with_index=not st_["ignore_index"], ordered=False, meta=got.iloc[:0])
        else:
            D.close_eq(got, want, what=what, sig=s, meta=got.iloc[:0], check_index=not st_["ignore_index"])
        # Whether the plain lowering has pandas' dtypes (data dependent upcasts on empty partitions, DESIGN 4.4) is the
        # subject of C36-C42; this property demands that optimisation does not CHANGE them: every optimised stage must
        # show the dtype of the unoptimised lowering or the one pandas computes
        base = results["lowered"]
        # (or the dtype dask's own meta announces: moving a filter below a left merge removes the unmatched rows whose
        # NaN made pandas upcast int -> float; that data dependent upcast is explicitly not promised, DESIGN 4.4)
        for c, g, b, w, m in zip(want.columns, got.dtypes, base.dtypes, want.dtypes, meta.dtypes):
            ensure(g == b or g == w or g == m, f"{what}: column {c!r} has dtype {g}; unoptimised lowering {b}, pandas {w}, meta {m}", "dtype-changed", **s)


def nontrivial(spec):
    steps = spec["steps"]
    srcs = [s["src"] % (i + 1) for i, s in enumerate(steps)]
    return len(steps) >= 2 and (any(s["op"] in SHARED for s in steps) or len(set(srcs)) < len(srcs))


def classes(spec):
    for s in spec["steps"]:
        yield "op-" + s["op"]
    yield f"steps-{len(spec['steps'])}"
    srcs = [s["src"] % (i + 1) for i, s in enumerate(spec["steps"])]
    if len(set(srcs)) < len(srcs):
        yield "variable-consumed-twice"
    if any(s["op"] == "assign" and s["shadow"] is not None for s in spec["steps"]):
        yield "shadowing-assign"
    if spec.get("final"):
        yield "final-reduction"


pred = st.fixed_dictionaries({"col": st.integers(0, 5), "cmp": st.sampled_from(list(CMP)), "thr": st.integers(-20, 20), "red": st.sampled_from([None, None, "mean", "min", "max"])})


@st.composite
def step(draw, i):
    op = draw(st.sampled_from(["filter", "filter", "filter_red", "filter_and", "filter_dnf", "filter_dnf", "project", "project", "assign", "assign", "assign", "drop", "repartition", "loc", "reset_index", "groupby", "merge", "concat"]))
    # mostly the latest variable (chains), sometimes an earlier one (DAG with shared sub-expressions)
    s = {"op": op, "src": i if draw(st.integers(0, 2)) else draw(st.integers(0, i))}
    if op in ("filter", "filter_red"):
        s.update(draw(pred))
        s["red"] = draw(st.sampled_from(["mean", "min", "max"])) if op == "filter_red" else None
    elif op == "filter_and":
        s.update(p1=draw(pred), p2=draw(pred))
    elif op == "filter_dnf":
        s["atoms"] = draw(st.lists(pred, min_size=2, max_size=4))
        s["clauses"] = draw(st.lists(st.lists(st.integers(0, 3), min_size=1, max_size=3, unique=True), min_size=2, max_size=4))
    elif op == "project":
        s["mask"] = draw(st.integers(1, 63))
    elif op == "assign":
        s.update(kind=draw(st.sampled_from(["colcol", "const", "red"])), a=draw(st.integers(0, 5)), b=draw(st.integers(0, 5)), f=draw(st.sampled_from(["__add__", "__sub__"])), k=draw(st.integers(-3, 3)), red=draw(st.sampled_from(["mean", "max", "sum"])), shadow=draw(st.sampled_from([None, 0, 1, 2, 3])))
        if s["kind"] == "const" and draw(st.booleans()):
            s["f"] = "__mul__"
    elif op == "drop":
        s["col"] = draw(st.integers(0, 5))
    elif op == "repartition":
        s["n"] = draw(st.integers(1, 5))
    elif op == "loc":
        s.update(a=draw(st.integers(0, 30)), b=draw(st.integers(0, 30)))
    elif op == "groupby":
        s.update(col=draw(st.integers(0, 5)), agg=draw(st.sampled_from(["sum", "max", "count", "mean"])))
    elif op == "merge":
        s["how"] = draw(st.sampled_from(["inner", "left"]))
    elif op == "concat":
        s["with"] = draw(st.sampled_from([None, 0, 1, 2]))
    return s


@st.composite
def program(draw):
    key = {"name": "k", "kind": "key", "card": 3}
    frame = draw(C.sorted_frame_spec(min_rows=2, max_rows=25, kinds=("int", "int", "float", "key"), index_kinds=("range", "sorted_unique"), max_cols=3, p_bydivs=0.2, required=[key], allow_cuts=False))
    frame["index"]["name"] = None
    if frame["partition"]["how"] == "bydivs":
        frame["partition"].update(lo=0, hi=0, single_last=False)  # empty source partitions are not this property's subject
    frame2 = {"nrows": draw(st.integers(1, 6)), "seed": draw(st.integers(0, 99)), "columns": [dict(key, card=4), {"name": "r", "kind": "float", "nan": 0.0}, {"name": "s", "kind": "int"}], "index": {"kind": "range", "name": None}, "partition": {"how": "npartitions", "n": draw(st.integers(1, 2)), "sort": True}}
    n = draw(st.integers(1, 6))
    spec = {"frame": frame, "frame2": frame2, "steps": [draw(step(i)) for i in range(n)]}
    if draw(st.integers(0, 4)) == 0:
        spec["final"] = {"col": draw(st.integers(0, 5)), "red": draw(st.sampled_from(["sum", "max", "count"]))}
    return spec


def astype_filter_cases(tier):
    """A narrowing astype (the key column holds 0..899: values wrap around in int8/uint8) followed by filters / projections on
    the converted frame: the optimizer may only push a predicate below a cast that cannot change what the predicate sees."""
    import itertools

    frame2 = {"nrows": 3, "seed": 1, "columns": [{"name": "k", "kind": "key", "card": 4}, {"name": "r", "kind": "float", "nan": 0.0}, {"name": "s", "kind": "int"}], "index": {"kind": "range", "name": None}, "partition": {"how": "npartitions", "n": 1, "sort": True}}
    for n, seed, to, col, (cmp_, thr) in itertools.product((1, 3), (1, 2), ("int8", "uint8", "int16", "float32"), (0, 1), ((">", 0), ("<", 100), (">=", -20))):
        frame = {"columns": [{"name": "k", "kind": "key", "card": 900}, {"name": "x", "kind": "int"}], "index": {"kind": "range", "name": None}, "nrows": 14, "seed": seed, "partition": {"how": "npartitions", "n": n, "sort": True}}
        flt = {"op": "filter", "src": 1, "col": col, "cmp": cmp_, "thr": thr, "red": None}
        for tail in ([], [{"op": "project", "src": 2, "mask": 1}], [{"op": "filter", "src": 2, "col": 1 - col, "cmp": "<", "thr": 10, "red": None}]):
            yield {"frame": frame, "frame2": frame2, "steps": [{"op": "astype", "src": 0, "col": col, "to": to}, flt] + tail}


SUBCHECKS = [
    Sub("astype-filter", check, kind="enum", cases=astype_filter_cases, nontrivial=lambda spec: spec["steps"][0]["to"] in ("int8", "uint8"), classes=classes, exhaustive=True,
        doc="astype of a column holding 0..899 to int8/uint8/int16/float32 followed by a filter on either column (+ projection / second filter), 1|3 partitions: pandas == lowered == optimized == compute()"),
    Sub(
        "programs",
        check,
        strategy=lambda tier: program(),
        n={"quick": 1200, "thorough": 25000},
        nontrivial=nontrivial,
        classes=classes,
        doc="pandas == unsimplified lowering == optimized == re-optimized == compute() on generated DAG-shaped programs",
    ),
]
