"""C37 - DataFrame/Series reductions and aggregations equal pandas.

A case is a frame spec x a partitioning x (optionally one row-wise preparation
step: filter / projection / assign) x ONE reduction drawn from a typed grammar.
``apply_red`` is the same function for the pandas and the dask object (dask-only
keywords such as ``split_every`` are added on the dask side).

Comparator (never stricter than the statement):

* floats within rtol 1e-9 (atol 1e-12), counts/extrema/labels exactly; dtypes exactly,
  except the documented data-dependent pandas dtype when a partition is (or may have
  become) empty and dask computed what its own lazy meta announces (DESIGN 4.4/8.6);
* ``value_counts``: a mapping value -> count (order among equal counts is free), plus
  "counts are non-increasing" only when ``sort=True`` was requested;
* ``describe``: only the rows count/mean/std/min/max (percentiles are approximate);
* programs pandas rejects are outside the domain (Reject); a ``NotImplementedError``
  raised by dask while building the graph is a documented refusal (Reject, counted).
"""
from __future__ import annotations

import warnings

import numpy as np
import pandas as pd
from hypothesis import strategies as st

from vf import frames as F
from vf.core import Reject, Sub, Violation, count, ensure, impl, reference
from vf.props import _dfcommon1 as D

PROPERTY = "C37"
PRELOAD = ["dask.dataframe"]
LEVEL = "exploration"
RULE = (
    "random: vf.frames.frame_spec frames (0-30 rows; numeric int/float/bool/Int64/Float64/boolean/key columns with NaN/NA plus "
    "str/datetime/categorical ones, six index kinds) x partitioning (from_pandas npartitions/chunksize, from_map cuts with EMPTY "
    "partitions, known/unknown divisions) x optional filter/projection/assign step x one reduction of: sum, prod (min_count), "
    "min, max, count, mean, var, std, sem (ddof), any, all, idxmin, idxmax, nunique (dropna), value_counts (sort, dropna, "
    "normalize), mode (dropna), nlargest/nsmallest (n, columns), describe (count/mean/std/min/max rows), cov/corr "
    "(min_periods; frame and series-series), len; on a frame (all columns with numeric_only, or a projection) or a single "
    "column; axis 0/1, skipna, split_every in {2,3,False,None}. Oracle: the same call on pandas. Non-trivial: (a missing "
    "value is possible and a partition is empty) or (split_every=2 with >= 4 partitions)."
)
ASSUMPTIONS = [
    "pandas 3.0 on the whole frame is the reference; float aggregates within rtol 1e-9 / atol 1e-12",
    "value_counts tie order, and its order unless sort=True, are free",
    "describe percentiles are approximate by documentation and not compared",
    "data-dependent pandas result dtypes on empty partitions are accepted when equal to dask's lazy meta",
]
TECHNIQUE = "differential testing against pandas with Hypothesis-generated frames, partitionings and reduction calls"

NUMK = ("int", "float", "Int64", "Float64", "bool", "boolean")


def target_of(obj, r):
    if "col" in r:
        return obj[r["col"]]
    if "cols" in r:
        return obj[list(r["cols"])]
    return obj


FAMILY = {"var": "moment", "std": "moment", "sem": "moment", "idxmin": "idx", "idxmax": "idx", "cov": "cov", "corr": "cov"}


def input_classes(t):
    """Structural facts about the reduced pandas object, used in signatures."""
    dts = list(t.dtypes) if isinstance(t, pd.DataFrame) else [t.dtype]
    cols = [str(c) for c in t.columns] if isinstance(t, pd.DataFrame) else []
    return dict(
        nullable=any(isinstance(x, (pd.Int64Dtype, pd.Float64Dtype, pd.BooleanDtype)) for x in dts),
        cols_sorted=cols == sorted(cols),
        has_nonnumeric=any(str(x) in ("str", "object", "string") or str(x).startswith("datetime") for x in dts),
        has_na=bool(t.isna().to_numpy().any()) if len(t) else False,
        object_col=any(x == object for x in dts),
        nullable_num=any(isinstance(x, (pd.Int64Dtype, pd.Float64Dtype)) for x in dts),
    )


def mode_cat_zero_counts(t, dropna):
    """Input class of a known defect of ``mode``: a categorical column with categories none of which occurs among
    the counted values (zero rows, or only NA with dropna=True): every per-category count is 0 == max count."""
    cols = [t[c] for c in t.columns] if isinstance(t, pd.DataFrame) else [t]
    for s_ in cols:
        if isinstance(s_.dtype, pd.CategoricalDtype) and len(s_.dtype.categories):
            vc = s_.value_counts(dropna=dropna)
            if len(vc) and int(vc.max()) == 0:
                return True
    return False


def undefined_moment_inf_to_na(want, t, ddof):
    """var/std/sem with ddof >= number of valid values is undefined.  pandas answers NaN for numpy-backed columns,
    but for Int64/Float64 (masked) columns it divides by ``n - ddof <= 0`` unguarded: var/std = inf when the values
    differ (even for a NEGATIVE denominator), <NA> when they are equal (0/0), while sem of the same data is <NA>.
    That inf is an artefact of the degenerate input, not a statistic: it is read as missing (<NA>), which is what
    pandas returns for every other dtype/statistic of this class.  Only the entries of masked columns with
    count <= ddof are touched, and only when pandas' value there is infinite."""
    masked = (pd.Int64Dtype, pd.Float64Dtype, pd.BooleanDtype)
    if isinstance(t, pd.Series):
        if isinstance(t.dtype, masked) and int(t.count()) <= ddof and isinstance(want, (float, np.floating)) and np.isinf(want):
            return pd.NA
        return want
    if isinstance(want, pd.Series) and t.columns.is_unique and want.index.is_unique:
        want = want.copy()
        for c in want.index:
            if c in t.columns and isinstance(t[c].dtype, masked) and int(t[c].count()) <= ddof:
                v = want[c]
                if not D.F._isna(v) and np.isinf(float(v)):
                    want[c] = pd.NA if isinstance(want.dtype, masked) else np.nan
    return want


def nat_last(x):
    """Stable per-column reordering of a datetime/timedelta/categorical mode result: valid values first, NaT/NaN after.

    ``Series.mode(dropna=False)`` is documented to return the modes "in sorted order"; for datetime64/timedelta64
    pandas sorts the int64 view, which puts NaT (int64 min) FIRST, and for categoricals it sorts the codes, which puts
    NaN (code -1) FIRST - contrary to its own ``sort_values`` and to what it does for float/str/nullable columns
    (NaN/NA last).  Where the missing value sits among several modes is therefore a pandas artefact; the set of
    modes, their multiplicity and the order of the valid ones are compared."""

    def fix(s_):
        if (s_.dtype.kind in "mM" or isinstance(s_.dtype, pd.CategoricalDtype)) and s_.isna().any():
            v = pd.concat([s_[s_.notna()], s_[s_.isna()]])
            v.index = s_.index
            return v
        return s_

    if isinstance(x, pd.Series):
        return fix(x)
    if isinstance(x, pd.DataFrame) and x.columns.is_unique:
        x = x.copy()
        for i in range(x.shape[1]):
            x.isetitem(i, fix(x.iloc[:, i]))
    return x


def idx_boolean_na_columns(t):
    """Columns on which pandas' own ``DataFrame.idxmin/idxmax`` is not a reference: ``boolean`` (masked) columns holding
    NA.  ``DataFrame.idxmax`` reduces a masked block through ``BaseMaskedArray._reduce('argmax')`` ->
    ``nanops.nanargmax(self._data, mask=...)``, and nanops does not fill masked BOOL data (``_na_ok_dtype`` is False for
    bool), so the hidden payload under the mask takes part: ``pd.DataFrame({'d': pd.array([False, pd.NA, True],
    dtype='boolean')}).idxmax()`` is 1 (the NA row) while ``Series.idxmax`` of the same column is 2 and the documentation
    says NA is excluded.  dask calls the same pandas method per partition, so it inherits the artefact per partition
    (another NA row).  Neither answer is the statistic; the entries of exactly these columns are left out of the
    comparison (Series.idxmin/idxmax of such a column, Int64/Float64 columns and every other column stay compared)."""
    if not isinstance(t, pd.DataFrame) or not t.columns.is_unique:
        return []
    return [c for c in t.columns if isinstance(t[c].dtype, pd.BooleanDtype) and bool(t[c].isna().any())]


def zero_row_dtypes_of_empty_partition(got, want, ref_on_zero_rows):
    """A ZERO-ROW result (e.g. ``nlargest(0)``) carries nothing but dtypes, and those are what the partition-local
    pandas calls produced.  pandas' dtypes over zero rows differ from those over any non-empty input (``<empty str
    column> + "!"`` is object, with one row it is str), so when some partition is empty the concatenation of the
    zero-row pieces has the zero-row dtype (object) although the whole-frame pandas run (which saw rows before cutting
    down to none) and the lazy meta say str.  That is the data-dependent pandas dtype of DESIGN 4.4 seen in a result
    without rows.  Accepted only column by column, only when both results have zero rows, and only if the computed dtype
    is exactly what pandas itself returns for the same program over the zero-row slice of the input."""
    if not (isinstance(got, (pd.Series, pd.DataFrame)) and type(got) is type(want) and len(got) == 0 and len(want) == 0):
        return want
    dg, dw = D._dtypes_of(got), D._dtypes_of(want)
    if len(dg) != len(dw) or all(a == b for a, b in zip(dg, dw)):
        return want
    status, z = reference(ref_on_zero_rows)
    if status != "ok" or type(z) is not type(want) or len(D._dtypes_of(z)) != len(dw):
        return want
    dz = D._dtypes_of(z)
    hit = [i for i in range(len(dw)) if dg[i] != dw[i] and dg[i] == dz[i]]
    if not hit:
        return want
    count("zero-row-result-dtype-of-empty-partition")
    if isinstance(want, pd.Series):
        return want.astype(dg[0])
    want = want.copy()
    for i in hit:
        want.isetitem(i, want.iloc[:, i].astype(dg[i]))
    return want


def obj_str_filter(pre, base):
    """Signature flag only (no comparison depends on it): the preparation step is a filter whose predicate applies a
    ``.str`` method to an OBJECT-dtype input column (input class of the open finding
    c37-object-column-str-predicate-filter-keyerror)."""
    if not any(o["op"] == "filter" for o in pre):
        return False
    for n in D.walk(pre):
        x = n.get("x") if n.get("e") == "acc" and n.get("acc") == "str" else None
        if isinstance(x, dict) and x.get("e") == "col" and x.get("name") in base.columns and base[x["name"]].dtype == object:
            return True
    return False


def apply_red(obj, r):
    t = target_of(obj, r)
    name = r["name"]
    kw = dict(r.get("kw", {}))
    if name == "len":
        return len(t)
    if D.is_dask(t) and "split_every" in r:
        kw["split_every"] = r["split_every"]
    if D.is_dask(t) and r.get("split_out") is not None:
        kw["split_out"] = r["split_out"]  # (dask-side keyword: 1 = tree reduction, >1 / True = shuffle based)
    if "with" in r:
        return getattr(t, name)(obj[r["with"]], **kw)
    return getattr(t, name)(**kw)


def compare_value_counts(got, want, r, sig):
    kw = r.get("kw", {})
    ensure(isinstance(got, pd.Series), f"value_counts returned {type(got).__name__}", "type-mismatch", **sig)
    ensure(got.name == want.name, f"value_counts name {got.name!r} != pandas {want.name!r}", "name-mismatch", **sig)
    ensure(got.index.name == want.index.name, f"value_counts index name {got.index.name!r} != pandas {want.index.name!r}", "name-mismatch", **sig)
    ensure(got.dtype == want.dtype, f"value_counts dtype {got.dtype} != pandas {want.dtype}", "dtype-mismatch", **sig)

    def keyof(k):
        if D.F._isna(k):
            return ("na",)
        if isinstance(k, (bool, np.bool_)):
            return ("bool", bool(k))
        if isinstance(k, (int, float, np.integer, np.floating)):
            return ("num", float(k))
        return (type(k).__name__, str(k))

    def mapping(s):
        m = {}
        for k, v in zip(s.index, s.values):
            key = keyof(k)
            ensure(key not in m, f"value_counts lists {k!r} twice", "duplicate-entry", **sig)
            m[key] = v
        return m

    mg, mw = mapping(got), mapping(want)
    ensure(set(mg) == set(mw), f"value_counts values differ: dask {sorted(map(str, mg))} pandas {sorted(map(str, mw))}", "value-mismatch", **sig)
    for k in mw:
        # (normalize=True over zero rows is 0/0 = NaN in pandas as well: NaN agrees with NaN)
        ok = np.isclose(float(mg[k]), float(mw[k]), rtol=1e-9, atol=1e-12, equal_nan=True)
        ensure(ok, f"value_counts[{k!r}] = {mg[k]!r}, pandas {mw[k]!r}", "value-mismatch", **sig)
    if kw.get("sort") is True:
        v = np.asarray(got.values, dtype=float)
        ensure(bool(np.all(v[:-1] >= v[1:] - 1e-12)), f"value_counts(sort=True) is not non-increasing: {list(got.values)}", "not-sorted", **sig)


def int_prod_overflows(t):
    cols = [t[c] for c in t.columns] if isinstance(t, pd.DataFrame) else [t]
    for s_ in cols:
        if str(s_.dtype).lower().startswith(("int", "uint")):
            p = 1
            for v in s_.dropna().tolist():
                p *= int(v)
            if abs(p) >= 2**62:
                return True
    return False


def canon_missing(x):
    if isinstance(x, pd.Series) and x.dtype == object:
        return x.where(x.notna(), None)
    if isinstance(x, pd.DataFrame) and any(dt == object for dt in x.dtypes):
        x = x.copy()
        for i, dt in enumerate(x.dtypes):
            if dt == object:
                x.isetitem(i, x.iloc[:, i].where(x.iloc[:, i].notna(), None))
    return x


DESCRIBE_ROWS = ["count", "mean", "std", "min", "max"]


def check(spec):
    r = spec["red"]
    pre = spec.get("pre", [])
    case = D.build_case(spec["frame"], spec.get("clear_div", False))
    envp, envd = D.Env(case, "pd"), D.Env(case, "dd")
    kw = r.get("kw", {})
    sig = dict(
        red=r["name"],
        target="series" if "col" in r else "frame",
        axis=kw.get("axis", 0),
        empty_part=case.has_empty,
        zero_rows=len(case.pdf) == 0,
        pre="+".join(o["op"] for o in pre),
    )
    maybe_empty = case.has_empty or len(case.pdf) == 0 or any(o["op"] == "filter" for o in pre)
    sig["maybe_empty"] = maybe_empty
    sig["obj_str_filter"] = obj_str_filter(pre, case.base)
    with warnings.catch_warnings(), np.errstate(all="ignore"):
        warnings.simplefilter("ignore")
        status, want = reference(lambda: apply_red(D.run_pipeline(case.base, pre, envp), r))
        if status == "err":
            raise Reject(f"pandas rejects the call: {want!r}")
        sig.update(input_classes(target_of(D.run_pipeline(case.base, pre, envp), r)))
        sig["fam"] = FAMILY.get(r["name"], r["name"])
        sig["min_periods_gt2"] = kw.get("min_periods", 2) > 2
        sig["skipna_false"] = kw.get("skipna") is False
        tgt = target_of(D.run_pipeline(case.base, pre, envp), r)
        if sig["fam"] == "moment":
            cnt = tgt.count()
            sig["ddof_ge_n"] = bool(kw.get("ddof", 1) >= (int(cnt.min()) if isinstance(cnt, pd.Series) and len(cnt) else int(cnt) if not isinstance(cnt, pd.Series) else 0))
            if sig["ddof_ge_n"] and sig["nullable"] and kw.get("axis", 0) == 0:
                want = undefined_moment_inf_to_na(want, tgt, kw.get("ddof", 1))
        if r["name"] == "mode":
            sig["mode_cat_zero_counts"] = mode_cat_zero_counts(tgt, kw.get("dropna", True))
        if r["name"] == "prod" and int_prod_overflows(tgt):
            # int64 products that wrap around: pandas' own value is an artefact of evaluation order/dtype
            raise Reject("integer product overflows int64")
        try:
            with impl("reduction", **sig):
                lazy = apply_red(D.run_pipeline(case.ddf, pre, envd), r)
                if r["name"] == "len":
                    got, meta = lazy, None
                else:
                    meta = lazy._meta
                    got = F.compute(lazy)
        except Violation as v:
            if isinstance(v.__cause__, NotImplementedError):
                count("dask-notimplemented")
                raise Reject("dask refuses: NotImplementedError") from None
            if sig.get("object_col") and isinstance(v.__cause__, ValueError) and str(v.__cause__).endswith("not supported with object series"):
                # explicit, deliberate refusal while building the graph (dask_expr/_util.py:_raise_if_object_series:
                # mean/var/std/sem of an object-dtype Series), same standing as NotImplementedError
                count("dask-refuses-object-series")
                raise Reject("dask refuses: not supported with object series") from None
            raise
    what = f"{r['name']}({kw})"
    if r["name"] == "value_counts":
        compare_value_counts(got, want, r, sig)
        return
    if r["name"] == "describe":
        rows = [x for x in DESCRIBE_ROWS if x in want.index]
        missing = [x for x in rows if x not in got.index]
        ensure(not missing, f"describe lacks rows {missing}: {list(got.index)}", "index-mismatch", **sig)
        got, want = got.loc[rows], want.loc[rows]
        if isinstance(meta, (pd.Series, pd.DataFrame)):
            meta = None  # the row selection changes nothing about dtypes; lazy dtype relaxation not needed
    # which missing-value sentinel (None / nan / pd.NA) sits inside an OBJECT-dtype result (mixed-dtype
    # reductions over zero rows, ...) is representation, not value
    got, want = canon_missing(got), canon_missing(want)
    if r["name"] == "mode" and kw.get("dropna") is False and isinstance(got, (pd.Series, pd.DataFrame)):
        got, want = nat_last(got), nat_last(want)
    # pandas' result dtype with min_count depends on whether the threshold was reached (int -> float NaN):
    # data-dependent like the empty-partition case, same acceptance rule (dask computed what its meta says)
    data_dependent = maybe_empty or bool(kw.get("min_count"))
    if maybe_empty:
        want = zero_row_dtypes_of_empty_partition(got, want, lambda: apply_red(D.run_pipeline(case.base.iloc[:0], pre, envp), r))
    if sig["fam"] == "idx" and kw.get("axis", 0) == 0 and isinstance(got, pd.Series) and isinstance(want, pd.Series):
        skip = [c for c in idx_boolean_na_columns(tgt) if c in want.index]
        if skip and list(got.index) == list(want.index) and want.index.is_unique:
            count("idx-boolean-na-pandas-artefact")
            got, want = got.drop(index=skip), want.drop(index=skip)
            if isinstance(meta, pd.Series) and all(c in meta.index for c in skip):
                meta = meta.drop(index=skip)
    try:
        D.compare(got, want, meta, what=what, sig=sig, maybe_empty=data_dependent)
    except Violation as v:
        if v.sig.get("symptom") == "dtype-mismatch":
            # input class of a known defect: a partition-local reduction over an EMPTY partition yields NaN and
            # turns an integer result into float64 although the lazy meta (and pandas) say int64
            dg, dw = D._dtypes_of(got) or [], D._dtypes_of(want) or []
            v.sig["int_to_float"] = maybe_empty and len(dg) == len(dw) and any(
                a != b and str(a).lower() == "float64" and str(b).lower().startswith(("int", "uint", "bool")) for a, b in zip(dg, dw)
            )
        raise


def nontrivial(spec):
    c = D.case_info(spec["frame"], spec.get("clear_div", False))
    if c is None or len(c.pdf) == 0:
        return False
    nan_possible = any(col.get("nan") for col in spec["frame"]["columns"])
    if nan_possible and c.has_empty:
        return True
    return spec["red"].get("split_every") == 2 and c.nparts >= 4


def classes(spec):
    yield from D.frame_classes(spec)
    r = spec["red"]
    yield "red-" + r["name"]
    yield "target-" + ("series" if "col" in r else "frame")
    kw = r.get("kw", {})
    if kw.get("axis") == 1:
        yield "axis-1"
    if kw.get("skipna") is False:
        yield "skipna-False"
    if kw.get("numeric_only"):
        yield "numeric_only"
    yield "split_every-%s" % r.get("split_every", "default")
    if r.get("split_out") is not None:
        yield "split_out-%s" % r["split_out"]
    if spec.get("pre"):
        yield "pre-" + spec["pre"][0]["op"]


# --------------------------------------------------------------------------
# generator

SPLIT = [2, 3, False, None]


def gen_red(draw, schema):
    d = dict(schema)
    names = [n for n, _ in schema]
    nums = [n for n in names if d[n] in NUMK]
    npnums = [n for n in names if d[n] in ("int", "float")]
    orderable = [n for n in names if d[n] in NUMK + ("str", "dt")]
    name = draw(
        st.sampled_from(
            ["sum", "prod", "min", "max", "count", "mean", "var", "std", "sem", "any", "all", "idxmin", "idxmax", "nunique",
             "value_counts", "value_counts", "mode", "nlargest", "nsmallest", "describe", "cov", "corr", "len"]
        )
    )
    r = {"name": name}
    kw = {}
    series = draw(st.booleans())

    def subset(cs, min_size=1):
        return draw(st.lists(st.sampled_from(cs), min_size=min_size, max_size=len(cs), unique=True))

    def target(pool, allow_all=True):
        """series column / projection from pool / whole frame with numeric_only"""
        if not pool:
            return False
        if series:
            r["col"] = draw(st.sampled_from(pool))
        elif allow_all and draw(st.integers(0, 2)) == 0:
            kw["numeric_only"] = True
        else:
            r["cols"] = subset(pool)
        return True

    if name != "len":
        r["split_every"] = draw(st.sampled_from(SPLIT))
    if name == "len":
        if series:
            r["col"] = draw(st.sampled_from(names))
        return r
    if name in ("sum", "prod", "mean", "var", "std", "sem"):
        if not target(nums):
            return None
        if draw(st.booleans()):
            kw["skipna"] = draw(st.booleans())
        if name in ("sum", "prod") and draw(st.booleans()):
            kw["min_count"] = draw(st.sampled_from([0, 1, 3]))
        if name in ("var", "std", "sem") and draw(st.booleans()):
            kw["ddof"] = draw(st.sampled_from([0, 1, 2]))
        if "cols" in r and draw(st.integers(0, 3)) == 0 and all(d[c] in ("int", "float") for c in r["cols"]):
            kw["axis"] = 1
    elif name in ("min", "max"):
        pool = orderable
        if not series and draw(st.booleans()):
            pool = nums
        if not target(pool, allow_all=True):
            return None
        if draw(st.booleans()):
            kw["skipna"] = draw(st.booleans())
        if "cols" in r and draw(st.integers(0, 3)) == 0 and all(d[c] in ("int", "float") for c in r["cols"]):
            kw["axis"] = 1
    elif name == "count":
        if series:
            r["col"] = draw(st.sampled_from(names))
        elif draw(st.booleans()):
            r["cols"] = subset(names)
            if draw(st.integers(0, 3)) == 0:
                kw["axis"] = 1
        elif draw(st.booleans()):
            kw["numeric_only"] = True
    elif name in ("any", "all"):
        pool = [n for n in names if d[n] in NUMK]
        if not pool:
            return None
        if series:
            r["col"] = draw(st.sampled_from(pool))
        else:
            r["cols"] = subset(pool)
            if draw(st.integers(0, 3)) == 0:
                kw["axis"] = 1
        if draw(st.booleans()):
            kw["skipna"] = draw(st.booleans())
    elif name in ("idxmin", "idxmax"):
        pool = [n for n in names if d[n] in ("int", "float", "Int64", "Float64")]
        if not target(pool):
            return None
        if draw(st.booleans()):
            kw["skipna"] = draw(st.booleans())
    elif name == "nunique":
        if series:
            r["col"] = draw(st.sampled_from(names))
        else:
            r["cols"] = subset(names)
            if draw(st.integers(0, 4)) == 0:
                kw["axis"] = 1
        if draw(st.booleans()):
            kw["dropna"] = draw(st.booleans())
    elif name == "value_counts":
        r["col"] = draw(st.sampled_from(names))
        if draw(st.booleans()):
            kw["sort"] = draw(st.sampled_from([True, False]))
        if draw(st.booleans()):
            kw["dropna"] = draw(st.booleans())
        if draw(st.booleans()):
            kw["normalize"] = draw(st.booleans())
        r["split_out"] = draw(st.sampled_from([None, None, 1, 1, 2, True]))
    elif name == "mode":
        if series:
            r["col"] = draw(st.sampled_from(names))
        else:
            r["cols"] = subset(names)
        if draw(st.booleans()):
            kw["dropna"] = draw(st.booleans())
    elif name in ("nlargest", "nsmallest"):
        pool = [n for n in names if d[n] in ("int", "float")]
        if not pool:
            return None
        kw["n"] = draw(st.integers(0, 5))
        if series:
            r["col"] = draw(st.sampled_from(pool))
        else:
            cs = subset(pool)[:2]
            kw["columns"] = cs if draw(st.booleans()) else cs[0]
    elif name == "describe":
        pool = [n for n in names if d[n] in ("int", "float")]
        if not pool:
            return None
        if series:
            r["col"] = draw(st.sampled_from(pool))
        else:
            r["cols"] = subset(pool)
    elif name in ("cov", "corr"):
        pool = [n for n in names if d[n] in ("int", "float")]
        if len(pool) < 1:
            return None
        if series or len(pool) < 2:
            r["col"] = draw(st.sampled_from(pool))
            r["with"] = draw(st.sampled_from(pool))
        else:
            r["cols"] = subset(pool, 2)
        if draw(st.booleans()):
            kw["min_periods"] = draw(st.sampled_from([2, 3, 6]))
    if kw:
        r["kw"] = kw
    return r


@st.composite
def random_case(draw):
    req = [draw(F.column_spec("a", ["int", "float", "float", "key", "keyna", "Int64", "Float64", "bool"])), draw(F.column_spec("b", ["int", "float", "float", "keyna"]))]
    fs = draw(F.frame_spec(max_rows=30, required=req, min_cols=0, max_cols=3))
    pre = []
    schema = D.schema_of(fs)
    if draw(st.integers(0, 2)) == 0:
        ctx = {"schema0": schema, "allow_other": False, "allow_root": False, "nonzero_div": True, "pos": 0, "no_float32": True}
        for _ in range(4):
            op, sch, is_series = D.gen_frame_op(draw, schema, ctx, last=False)
            if op["op"] in ("filter", "project", "assign") and sch:
                pre, schema = [op], sch
                break
    red = None
    for _ in range(6):
        red = gen_red(draw, schema)
        if red is not None:
            break
    if red is None:
        red = {"name": "len"}
    return {"frame": fs, "clear_div": draw(st.integers(0, 5)) == 0, "pre": pre, "red": red}


def grid_cases(tier):
    """Keyword grids of the tree / shuffle reductions whose steps (chunk, combine, aggregate) each take the user's
    keywords: every combination over a small fixed frame with missing values, for 1..6 partitions."""
    import itertools

    cols = [
        {"kind": "float", "name": "a", "nan": 0.3},
        {"kind": "str", "name": "b", "nan": 0.3},
        {"kind": "Int64", "name": "c", "nan": 0.3},
        {"kind": "key", "name": "d", "card": 3},
    ]
    nparts = [1, 2, 3, 5, 6] if tier == "quick" else [1, 2, 3, 4, 5, 6, 9]
    i = 0
    for n, se, so in itertools.product(nparts, [2, 3, None, False], [None, 1, 2, True]):
        frame = {"columns": cols, "index": {"kind": "range", "name": None}, "nrows": 14 if n < 9 else 20, "seed": 3 + n, "partition": {"how": "npartitions", "n": n, "sort": True}}
        for dropna, sort in itertools.product([None, True, False], [None, True, False]):
            i += 1
            col = "abcd"[i % 4]
            kw = {}
            if dropna is not None:
                kw["dropna"] = dropna
            if sort is not None:
                kw["sort"] = sort
            if i % 5 == 0:
                kw["normalize"] = True
            r = {"name": "value_counts", "col": col, "kw": kw, "split_every": se, "split_out": so}
            yield {"frame": frame, "pre": [], "red": r}
        for dropna in (None, True, False):
            i += 1
            r = {"name": "nunique", "col": "abcd"[i % 4], "kw": {} if dropna is None else {"dropna": dropna}, "split_every": se}
            yield {"frame": frame, "pre": [], "red": r}


def grid_nontrivial(spec):
    return spec["frame"]["partition"]["n"] >= 3 and spec["red"].get("split_every") in (2, 3)


SUBCHECKS = [
    Sub(
        "random",
        check,
        strategy=lambda tier: random_case(),
        n={"quick": 2400, "thorough": 40000},
        nontrivial=nontrivial,
        classes=classes,
        doc="random frames x partitionings (incl. empty partitions) x optional filter/projection/assign x one reduction",
    ),
    Sub(
        "grid",
        check,
        kind="enum",
        cases=grid_cases,
        nontrivial=grid_nontrivial,
        classes=classes,
        exhaustive=True,
        doc="value_counts / nunique: full grid of npartitions x split_every x split_out x dropna x sort over a fixed frame with missing values",
    ),
]
