"""C31 — tensor products and numpy-backed decompositions are correct."""
from __future__ import annotations

import itertools

import numpy as np
from hypothesis import strategies as st

from vf import arrays as A
from vf.core import Reject, Sub, ensure, impl, reference

PROPERTY = "C31"
PRELOAD = ["dask.array"]
LEVEL = "exploration"
RULE = (
    "enum: (3,4)x(4,2) products (dot/matmul/tensordot/einsum) under ALL chunkings of both operands; qr and svd of "
    "small matrices under all single-column-chunk row chunkings (tall-and-skinny) and all admissible single-row-chunk "
    "column chunkings (short-and-fat). hyp: tensordot with int / list-pair / int-pair axes (negative axes, permuted), "
    "dot, matmul (broadcast batch dims), outer, inner, vdot, einsum with subscripts drawn from a random index alphabet "
    "(repeated inside an operand, contracted, implicit output, '...' batch dims, optimize flag), int/float/complex "
    "dtypes, random chunkings incl. a zero-size-chunk stratum; qr/svd on tall/fat layouts with irregular chunks, 1-row "
    "chunks, rank-deficient inputs, float32/float64/complex128, svd coerce_signs. Oracle: NumPy (exact for integers, "
    "summation-order tolerance for floats); Q^H Q ~ I, R upper-triangular, QR ~ A; U diag(s) V ~ A and s ~ "
    "numpy.linalg.svd; lazy shape/dtype/chunks match the computed factors. Non-trivial: the contracted axis is chunked "
    "differently in two operands, or a decomposition with >= 3 blocks of unequal size along the chunked axis."
)
ASSUMPTIONS = [
    "float results may differ from NumPy by summation order: |got-want| <= 16*eps*nterms*(prod of sum|x_i|) (+ same rtol)",
    "dask.array has no `inner` in this version (AttributeError), so the statement's `inner` clause is covered through "
    "tensordot/dot/einsum('...i,...i') only",
    "scipy is not installed: only the NumPy-backed tsqr/sfqr/svd paths are exercised (as the statement says)",
    "singular values compared with atol 64*eps*max(m,n)*||A||_F; factor products with the same bound",
]
TECHNIQUE = "differential testing against NumPy and algebraic invariants of the factors"


def tol(xs, nterms, dtype):
    dt = np.dtype(dtype)
    if dt.kind not in "fc":
        return True, 0.0, 0.0
    # intermediates of a multi-operand contraction may be rounded in the coarsest float type among the inputs
    eps = max([float(np.finfo(dt).eps)] + [float(np.finfo(x.dtype).eps) for x in xs if x.dtype.kind in "fc"])
    mag = 1.0
    for x in xs:
        mag *= max(float(np.abs(x).sum()), 1.0)
    return False, 16 * eps * max(nterms, 1), 16 * eps * max(nterms, 1) * mag


def ax(v):
    return tuple(ax(e) for e in v) if isinstance(v, list) else v


def call(lib, spec, ops):
    op = spec["op"]
    if op == "tensordot":
        return lib.tensordot(ops[0], ops[1], axes=ax(spec["axes"]))
    if op == "einsum":
        kw = {"optimize": spec["optimize"]} if spec.get("optimize") is not None else {}
        if spec.get("dtype"):
            kw["dtype"] = spec["dtype"]
        return lib.einsum(spec["subscripts"], *ops, **kw)
    return getattr(lib, op)(*ops)


def repeated_diff(spec):
    if spec["op"] != "einsum":
        return False
    terms = spec["subscripts"].split("->")[0].split(",")
    for t, a in zip(terms, spec["arrays"]):
        t = t.replace("...", "")
        ch = a["chunks"][len(a["chunks"]) - len(t):]
        if any(t[i] == t[j] and ch[i] != ch[j] for i in range(len(t)) for j in range(i)):
            return True
    return False


def neg_left_misplaced(spec):
    """Input-class flag of finding tensordot-negative-left-axes: the left axes contain negative numbers AND re-inserting the
    contracted axes into the per-block result at those raw (un-normalised) positions puts them somewhere else than at the
    normalised positions (e.g. axes=([-1],[0]) on a 2-d lhs happens to land correctly, ([-3,-1],[0,1]) on a 3-d lhs does not)."""
    if spec["op"] != "tensordot" or isinstance(spec["axes"], int):
        return False
    left = [int(v) for v in np.atleast_1d(ax(spec["axes"])[0])]
    if not any(v < 0 for v in left):
        return False
    la, lb = (len(a["shape"]) for a in spec["arrays"])
    out = []
    for axes0 in (left, [v % la for v in left]):
        ind = list(range(la + lb - 2 * len(left)))
        for a in sorted(axes0):
            ind.insert(a, None)
        out.append(ind)
    return out[0] != out[1]


def prod_check(spec):
    import dask.array as da

    xs = [A.build_np(a) for a in spec["arrays"]]
    ds = [A.build_da(a, x) for a, x in zip(spec["arrays"], xs)]
    if spec.get("np_second") and len(ds) > 1:
        ds[1] = xs[1]
    with np.errstate(all="ignore"):
        status, want = reference(call, np, spec, xs)
    if status == "err":
        raise Reject(f"NumPy rejects: {want}")
    sig = dict(op=spec["op"], zero_chunk=any(A.has_zero_chunk(a["chunks"]) for a in spec["arrays"]), zero_length=any(0 in a["shape"] for a in spec["arrays"]),
               # input-class flag: an einsum index repeated inside one operand whose two axes are chunked differently
               repeated_index_diff_chunks=repeated_diff(spec),
               # contraction of sub-64-bit integers goes through Array.sum, which widens (NumPy's tensordot/einsum do not)
               small_int=all(np.dtype(a["dtype"]).kind in "iub" and np.dtype(a["dtype"]).itemsize < 8 for a in spec["arrays"]),
               negative_left_axes_misplaced=neg_left_misplaced(spec))
    with impl(spec["op"], **sig), np.errstate(all="ignore"):
        r = call(da, spec, ds)
        ensure(isinstance(r, da.Array), f"{spec['op']} returned {type(r).__name__}", "not-dask", **sig)
        got = r.compute(scheduler="sync")
    nterms = max([x.size for x in xs] + [1])
    exact, rtol, atol = tol(xs, nterms, np.asarray(want).dtype)
    what = f"{spec['op']} {spec.get('axes', spec.get('subscripts', ''))}"
    # values first, dtype second: a dtype-only deviation (the small_int finding) must not hide a wrong value
    A.same_array(got, want, exact=exact, rtol=rtol, atol=atol, what=what, sig=sig, check_dtype=False)
    ensure(np.asarray(got).dtype == np.asarray(want).dtype, f"{what}: dtype {np.asarray(got).dtype} != numpy {np.asarray(want).dtype}", "dtype-mismatch", **sig)
    A.check_meta(r, got, sig=sig)


def prod_nontrivial(spec):
    arrs = spec["arrays"]
    if len(arrs) < 2:
        return A.nblocks(arrs[0]["chunks"]) > 1
    multi = [c for a in arrs for c in a["chunks"] if len(c) > 1]
    sets = [{tuple(c) for c in a["chunks"] if len(c) > 1} for a in arrs]
    return len(multi) >= 2 and bool(sets[0]) and bool(sets[1]) and sets[0] != sets[1]


def prod_classes(spec):
    yield "op-" + spec["op"]
    for a in spec["arrays"]:
        yield "dtype-" + a["dtype"]
    if any(A.has_zero_chunk(a["chunks"]) for a in spec["arrays"]):
        yield "zero-size-chunk"
    if spec["op"] == "einsum":
        s = spec["subscripts"]
        for name, cond in (("ellipsis", "..." in s), ("implicit", "->" not in s), ("optimize", bool(spec.get("optimize"))),
                           ("repeated", any(len(set(t)) < len(t) for t in s.replace("...", "").split("->")[0].split(",")))):
            if cond:
                yield "einsum-" + name
    if spec["op"] == "tensordot":
        yield "axes-" + ("int" if isinstance(spec["axes"], int) else "pair")


def prod_enum(tier):
    sa, sb = ([3, 4], [4, 2]) if tier == "quick" else ([3, 4], [4, 3])
    ops = [{"op": "dot"}, {"op": "matmul"}, {"op": "tensordot", "axes": 1}, {"op": "tensordot", "axes": [[-1], [0]]}, {"op": "einsum", "subscripts": "ij,jk->ik"}, {"op": "einsum", "subscripts": "ij,jk", "optimize": True}]
    for n, (ca, cb) in enumerate(itertools.product(A.all_chunkings(sa), A.all_chunkings(sb))):
        a = {"shape": sa, "dtype": "i8" if n % 2 else "f8", "seed": n, "fill": "small", "chunks": ca}
        b = {"shape": sb, "dtype": "f8" if n % 3 else "i8", "seed": n + 1, "fill": "normal", "chunks": cb}
        yield {**ops[n % len(ops)], "arrays": [a, b]}


DTS = ["i8", "f8", "f8", "i4", "f4", "c16"]


@st.composite
def arr(draw, shape, dtypes=DTS):
    a = draw(A.array_spec(shape=shape, dtypes=dtypes, fills=("small", "normal", "dups"), allow_zero_chunks=draw(st.integers(0, 7)) == 0))
    # An explicit empty chunk on a LENGTH-1 axis (chunks (0,1)/(1,0)) is not explored here: blockwise chunk unification takes
    # the multi-block length-1 axis for a non-broadcast one (shape (2,..) results) -- that root cause is C19's open finding
    # `broadcast-multiblock-len1-axis` and is tracked there; every tensor product would only re-report it.
    a["chunks"] = [[c for c in ch if c] if n == 1 else ch for n, ch in zip(a["shape"], a["chunks"])]
    return a


@st.composite
def prod_random(draw):
    op = draw(st.sampled_from(["tensordot", "tensordot", "dot", "matmul", "outer", "vdot", "einsum", "einsum", "einsum"]))
    size = st.integers(0, 4) if draw(st.integers(0, 5)) == 0 else st.integers(1, 4)
    spec = {"op": op}
    if op == "tensordot":
        k = draw(st.integers(0, 2))
        cs = [draw(size) for _ in range(k)]
        fa = [draw(size) for _ in range(draw(st.integers(0 if k else 1, 2)))]
        fb = [draw(size) for _ in range(draw(st.integers(0 if k else 1, 2)))]
        form = draw(st.sampled_from(["int", "lists", "lists", "ints"] if k == 1 else ["int", "lists", "lists"]))
        if form == "int":
            sa, sb, spec["axes"] = fa + cs, cs + fb, k
        else:
            pa = draw(st.permutations(range(len(fa) + k)))[:k]
            pb = draw(st.permutations(range(len(fb) + k)))[:k]
            sa, sb = list(fa), list(fb)
            for p, c in sorted(zip(pa, cs)):
                sa.insert(p, c)
            for p, c in sorted(zip(pb, cs)):
                sb.insert(p, c)
            neg = lambda p, n: p - n if draw(st.booleans()) else p  # noqa: E731
            la, lb = [neg(p, len(sa)) for p in pa], [neg(p, len(sb)) for p in pb]
            spec["axes"] = [la[0], lb[0]] if form == "ints" else [la, lb]
        shapes = [sa, sb]
    elif op == "dot":
        n = draw(size)
        sa = [draw(size) for _ in range(draw(st.integers(0, 2)))] + [n]
        sb = draw(st.sampled_from([[n], [n, draw(size)], [draw(size), n, draw(size)]]))
        shapes = [sa, sb]
    elif op == "matmul":
        n = draw(size)
        batch = [draw(st.integers(1, 3)) for _ in range(draw(st.integers(0, 2)))]
        ba = [1 if draw(st.integers(0, 3)) == 0 else b for b in batch[draw(st.integers(0, len(batch))):]]
        bb = [1 if draw(st.integers(0, 3)) == 0 else b for b in batch[draw(st.integers(0, len(batch))):]]
        sa = draw(st.sampled_from([[n], ba + [draw(size), n]]))
        sb = draw(st.sampled_from([[n], bb + [n, draw(size)]]))
        shapes = [sa, sb]
    elif op == "outer":
        shapes = [[draw(size) for _ in range(draw(st.integers(1, 2)))] for _ in range(2)]
    elif op == "vdot":
        n = draw(size)
        shapes = draw(st.sampled_from([[[n], [n]], [[n, 2], [n, 2]], [[2, n], [n, 2]]]))
    else:
        letters = {l: draw(size) for l in "ijkl"[: draw(st.integers(1, 4))]}
        nops = draw(st.integers(1, 3))
        terms = ["".join(draw(st.lists(st.sampled_from(sorted(letters)), min_size=0 if nops > 1 else 1, max_size=3))) for _ in range(nops)]
        batch = [draw(st.integers(1, 3)) for _ in range(draw(st.integers(0, 2)))] if draw(st.integers(0, 2)) == 0 else None
        shapes, subs = [], []
        for t in terms:
            shp = [letters[l] for l in t]
            if batch is not None:
                b = [1 if draw(st.integers(0, 3)) == 0 else x for x in batch[draw(st.integers(0, len(batch))):]]
                shp, t = b + shp, "..." + t
            shapes.append(shp)
            subs.append(t)
        used = sorted(set("".join(terms)))
        s = ",".join(subs)
        if draw(st.integers(0, 3)):
            out = "".join(draw(st.permutations(used))[: draw(st.integers(0, len(used)))])
            s += "->" + ("..." if batch is not None else "") + out
        spec["subscripts"] = s
        spec["optimize"] = draw(st.sampled_from([None, False, True, "greedy", "optimal"]))
    if op in ("outer", "vdot"):
        # both ravel their inputs; raveling an n-d array with a zero-length axis fails inside reshape (C24's subject,
        # not a tensor product) -> such inputs are given as 1-d
        shapes = [[int(np.prod(s))] if 0 in s and len(s) > 1 else s for s in shapes]
    dts = DTS if op != "vdot" else ["i8", "f8", "c16"]
    spec["arrays"] = [draw(arr(s, dts)) for s in shapes]
    if op in ("outer", "vdot"):  # (same reason: reshape of n-d arrays with explicit empty chunks is not this property)
        for a in spec["arrays"]:
            if len(a["shape"]) > 1:
                a["chunks"] = [[c for c in ch if c] or [0] for ch in a["chunks"]]
    if op in ("tensordot", "dot", "matmul", "outer") and draw(st.integers(0, 7)) == 0:
        spec["np_second"] = True
    return spec


# ------------------------------------------------------------------ qr / svd
def build_matrix(spec):
    m, n = spec["shape"]
    x = A.build_np({"shape": [m, n], "dtype": spec["dtype"], "seed": spec["seed"], "fill": "normal"})
    rank = spec.get("rank", "full")
    if rank == "dupcols" and n > 1:
        x[:, 1:] = x[:, :1] * np.arange(2, n + 1)
    elif rank == "zerorow" and m > 1:
        x[m // 2, :] = 0
    elif rank == "low" and min(m, n) > 1:
        x = (x[:, :1] @ x[:1, :]) / 10
    elif rank == "zeros":
        x[...] = 0
    return x


def dec_check(spec):
    import dask.array as da

    x = build_matrix(spec)
    m, n = x.shape
    d = da.from_array(x, chunks=tuple(map(tuple, spec["chunks"])))
    k = min(m, n)
    contradicts = (len(spec["chunks"][0]) > 1 and m < n) or (len(spec["chunks"][1]) > 1 and m > n)
    sig = dict(op=spec["op"], layout="tall" if len(spec["chunks"][1]) == 1 and len(spec["chunks"][0]) > 1 else "fat" if len(spec["chunks"][0]) == 1 and len(spec["chunks"][1]) > 1 else "single",
               shape_contradicts_chunking=contradicts, rank=spec.get("rank", "full"), complex=x.dtype.kind == "c")
    eps = float(np.finfo(x.dtype).eps)
    atol = 64 * eps * max(m, n) * max(float(np.linalg.norm(x)), 1.0)
    H = lambda a: np.conj(a.T)  # noqa: E731
    if spec["op"] == "qr":
        with impl("qr", **sig):
            q, r = da.linalg.qr(d)
            Q, R = q.compute(scheduler="sync"), r.compute(scheduler="sync")
        A.check_meta(q, Q, what="q", sig=sig)
        A.check_meta(r, R, what="r", sig=sig)
        ensure(Q.ndim == 2 and R.ndim == 2 and Q.shape[0] == m and R.shape[1] == n and Q.shape[1] == R.shape[0], f"factor shapes {Q.shape} {R.shape} for input {x.shape}", "shape-mismatch", **sig)
        ensure(np.allclose(H(Q) @ Q, np.eye(Q.shape[1]), rtol=0, atol=64 * eps * max(m, n)), f"Q^H Q != I: {H(Q) @ Q}", "q-not-orthonormal", **sig)
        ensure(np.all(np.abs(np.tril(R, -1)) <= atol * 1e-3), f"R not upper-triangular: {R}", "r-not-triangular", **sig)
        ensure(np.allclose(Q @ R, x, rtol=0, atol=atol), f"QR != A: max err {np.abs(Q @ R - x).max()} atol {atol}", "product-mismatch", **sig)
        return
    with impl("svd", **sig):
        u, s, v = da.linalg.svd(d, coerce_signs=spec["coerce_signs"])
        U, S, V = (z.compute(scheduler="sync") for z in (u, s, v))
    for name, lazy, val in (("u", u, U), ("s", s, S), ("v", v, V)):
        A.check_meta(lazy, val, what=name, sig=sig)
    want = np.linalg.svd(x, compute_uv=False)
    ensure(S.shape == want.shape and U.shape == (m, k) and V.shape == (k, n), f"factor shapes {U.shape} {S.shape} {V.shape} for input {x.shape} (numpy: ({m},{k}) ({k},) ({k},{n}))", "shape-mismatch", **sig)
    ensure(np.allclose(S, want, rtol=0, atol=atol), f"singular values {S} != numpy {want}", "singular-values-mismatch", **sig)
    ensure(np.allclose((U * S) @ V, x, rtol=0, atol=atol), f"U diag(s) V != A: max err {np.abs((U * S) @ V - x).max()} atol {atol}", "product-mismatch", **sig)


def dec_nontrivial(spec):
    c = spec["chunks"][0] if len(spec["chunks"][1]) == 1 else spec["chunks"][1]
    return len(c) >= 3 and len(set(c)) > 1


def dec_classes(spec):
    yield spec["op"]
    yield "rank-" + spec.get("rank", "full")
    yield "dtype-" + spec["dtype"]
    r, c = spec["chunks"]
    yield "tall" if len(c) == 1 and len(r) > 1 else "fat" if len(r) == 1 and len(c) > 1 else "single-chunk"
    if 1 in (r if len(c) == 1 else c):
        yield "size-1-chunk"
    if (len(r) > 1 and spec["shape"][0] < spec["shape"][1]) or (len(c) > 1 and spec["shape"][0] > spec["shape"][1]):
        yield "shape-contradicts-chunking"


def fat_ok(m, cols, op):
    # sfqr precondition (documented in its error message): one block column, or first column chunk at least as wide as the rows
    return op == "svd" or len(cols) == 1 or cols[0] >= m


def dec_enum(tier):
    shapes = [[5, 2], [4, 3], [3, 3], [2, 5], [1, 3], [4, 1]] if tier == "quick" else [[6, 2], [5, 3], [4, 4], [2, 6], [3, 5], [1, 4], [5, 1]]
    n = 0
    for (m, nn), op in itertools.product(shapes, ["qr", "svd"]):
        for rows in A.compositions(m):
            n += 1
            yield {"op": op, "shape": [m, nn], "chunks": [list(rows), [nn]], "dtype": "f8", "seed": n, "coerce_signs": bool(n % 2), "rank": ["full", "full", "low", "zerorow"][n % 4]}
        for cols in A.compositions(nn):
            if len(cols) > 1 and fat_ok(m, cols, op):
                n += 1
                yield {"op": op, "shape": [m, nn], "chunks": [[m], list(cols)], "dtype": "f8", "seed": n, "coerce_signs": bool(n % 2), "rank": ["full", "dupcols", "full"][n % 3]}


@st.composite
def dec_random(draw):
    op = draw(st.sampled_from(["qr", "svd"]))
    layout = draw(st.sampled_from(["tall", "tall", "fat"]))
    long_, short = draw(st.integers(1, 9)), draw(st.integers(1, 4))
    if draw(st.integers(0, 4)):  # usually the shape agrees with the layout
        long_ = max(long_, short)
    cl = draw(A.chunks_for_axis(long_))
    if len(cl) == 1 and long_ > 1 and draw(st.integers(0, 3)):  # keep single-chunk inputs (plain np.linalg) a small minority
        cut = draw(st.integers(1, long_ - 1))
        cl = draw(A.chunks_for_axis(cut)) + draw(A.chunks_for_axis(long_ - cut))
    if layout == "tall":
        shape, chunks = [long_, short], [cl, [short]]
    else:
        shape, chunks = [short, long_], [[short], cl]
        if not fat_ok(short, cl, op):
            cl = [min(short, long_)] + draw(A.chunks_for_axis(long_ - min(short, long_))) if long_ > short else [long_]
            chunks = [[short], cl]
    return {"op": op, "shape": shape, "chunks": chunks, "dtype": draw(st.sampled_from(["f8", "f8", "f4", "c16"])), "seed": draw(st.integers(0, 9999)),
            "coerce_signs": draw(st.booleans()), "rank": draw(st.sampled_from(["full", "full", "full", "dupcols", "zerorow", "low", "zeros"]))}


SUBCHECKS = [
    Sub("products_enum", prod_check, kind="enum", cases=prod_enum, nontrivial=prod_nontrivial, classes=prod_classes, exhaustive=True,
        doc="(3,4)x(4,2) dot/matmul/tensordot/einsum under all chunkings of both operands"),
    Sub("products", prod_check, strategy=lambda tier: prod_random(), n={"quick": 2500, "thorough": 50000}, nontrivial=prod_nontrivial, classes=prod_classes,
        doc="tensordot/dot/matmul/outer/inner/vdot/einsum with random shapes, axes, subscripts, dtypes and chunkings"),
    Sub("decomp_enum", dec_check, kind="enum", cases=dec_enum, nontrivial=dec_nontrivial, classes=dec_classes, exhaustive=True,
        doc="qr and svd of small matrices under all tall-and-skinny row chunkings and admissible short-and-fat column chunkings"),
    Sub("decomp", dec_check, strategy=lambda tier: dec_random(), n={"quick": 1200, "thorough": 25000}, nontrivial=dec_nontrivial, classes=dec_classes,
        doc="qr/svd on random tall/fat layouts, irregular and 1-row chunks, rank-deficient inputs, f4/f8/c16, coerce_signs"),
]
