"""Case generation and the run loop shared by C01-C04 (same engine and bounds,
each property brings its own predicates and non-triviality rule)."""
from __future__ import annotations

from hypothesis import strategies as st

from vf import core
from vf.core import Violation
from vf.gen import dags
from vf.graphs import RefEval, flat_request, is_callable_node
from vf.sched import explore_all
from vf.schedengine import execute

# (workers, chunksize) grid explored exhaustively on the controlled executor
CTRL_GRID_QUICK = [(1, 1), (2, 1), (3, 1), (2, 2), (3, -1)]
CTRL_GRID_THOROUGH = [(1, 1), (2, 1), (3, 1), (4, 1), (2, 2), (3, 2), (2, 3), (2, -1), (3, -1), (8, 1)]


def enum_cases(tier, nested_requests=True, scheds=("sync", "controlled")):
    """Every DAG up to n nodes x every request x style x schedule family.
    quick: n<=3 everything, n=4 with task/alias/list/data kinds and the full request set on a
    1-in-3 slice of graphs; thorough: n<=4 everything, n=5 on a slice."""
    nfull = 4 if tier == "quick" else 5
    grid = CTRL_GRID_QUICK if tier == "quick" else CTRL_GRID_THOROUGH
    idx = 0
    for n in range(1, nfull + 2):
        stride = 1
        if n == nfull + 1:
            stride = 41 if tier == "quick" else 397
        for gi, shape in enumerate(dags.all_dags(n)):
            if gi % stride:
                continue
            for style in ("legacy", "taskspec"):
                g = dags.dag_spec(shape, style, "str" if gi % 2 == 0 else "mixed")
                reqs = list(dags.all_requests(n, nested=nested_requests))
                if n == nfull + 1:
                    reqs = [n - 1, list(range(n)), [n - 1, 0], [[n - 1], [0, n - 2]]]
                for req in reqs:
                    idx += 1
                    if "sync" in scheds:
                        yield {"graph": g, "request": req, "sched": {"kind": "sync"}}
                    if "controlled" in scheds:
                        w, c = grid[idx % len(grid)]
                        yield {
                            "graph": g,
                            "request": req,
                            "sched": {"kind": "controlled", "workers": w, "chunksize": c, "choices": "all", "limit": 400 if tier == "quick" else 3000},
                        }


@st.composite
def sched_strategy(draw, kinds=("controlled", "threads", "tpe", "sync")):
    kind = draw(st.sampled_from(list(kinds)))
    if kind == "sync":
        return {"kind": "sync"}
    w = draw(st.integers(1, 8))
    c = draw(st.sampled_from([1, 1, 2, 3, -1]))
    s = {"kind": kind, "workers": w, "chunksize": c}
    if kind == "controlled":
        s["choices"] = draw(st.lists(st.integers(0, 7), min_size=6, max_size=40))
    return s


@st.composite
def random_case(draw, kinds=("controlled", "threads", "tpe", "sync"), rich=True, max_nodes=10):
    if rich and draw(st.booleans()):
        g = draw(dags.rich_graph(max_nodes=min(max_nodes, 8)))
    else:
        g = draw(dags.shape_graph(max_nodes=max_nodes))
    req = draw(dags.request_for(len(g["nodes"])))
    sched = draw(sched_strategy(kinds))
    case = {"graph": g, "request": req, "sched": sched}
    if sched["kind"] in ("threads", "tpe") and draw(st.booleans()):
        # micro-sleeps drawn into the spec: perturb the real pool's completion order
        n = len(g["nodes"])
        case["sleep"] = {str(i): draw(st.sampled_from([0.0, 0.0005, 0.002])) for i in range(n)}
    return case


def needed_callables(case):
    g = case["graph"]
    ref = RefEval(g)
    need = ref.needed(case["request"])
    return {i for i in need if is_callable_node(g["nodes"][i]["body"])}


def structural_classes(case):
    g = case["graph"]
    out = list(dags_shape_classes(g, case["request"]))
    out.append("sched-" + case["sched"]["kind"])
    out.append("style-" + g.get("style", "legacy"))
    if isinstance(case["request"], list):
        if any(isinstance(r, list) for r in case["request"]):
            out.append("nested-request")
    else:
        out.append("single-key-request")
    return out


def dags_shape_classes(g, request):
    from vf.graphs import shape_classes

    return shape_classes(g, request)


def for_each_schedule(case, predicate, opts=None, extra_callbacks=None, get_kwargs=None):
    """Run the case under its schedule (all interleavings when choices == 'all')
    and apply predicate(case, ref, outcome) to every run."""
    g = case["graph"]
    ref = RefEval(g)
    sched = dict(case["sched"])
    o = dict(opts or {})
    if case.get("sleep"):
        o["sleep"] = case["sleep"]
    if case.get("fail"):
        o["fail"] = case["fail"]
    if sched.get("choices") == "all":
        def run(choices):
            s = dict(sched)
            s["choices"] = choices
            out = execute(g, case["request"], s, o, extra_callbacks, get_kwargs)
            core.count("interleavings")
            if out.out_of_order:
                core.count("interleavings_out_of_order")
            try:
                predicate(case, ref, out)
            except Violation as v:
                v.message += f" [controlled choices={choices}]"
                v.args = (v.message,)
                raise
            return out.trace

        n, exhausted = explore_all(run, limit=sched.get("limit"))
        if not exhausted:
            core.count("interleaving_space_truncated")
        else:
            core.count("interleaving_space_exhausted")
        return
    out = execute(g, case["request"], sched, o, extra_callbacks, get_kwargs)
    core.count("runs")
    if sched["kind"] == "controlled" and out.out_of_order:
        core.count("interleavings_out_of_order")
    predicate(case, ref, out)
