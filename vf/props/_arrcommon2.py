"""Helpers shared by C23-C27 (chunk strategies with a separate, low-probability
zero-size-chunk stratum; block-wise reassembly; small utilities)."""
from __future__ import annotations

import itertools

import numpy as np
from hypothesis import strategies as st

from vf import arrays as A
from vf.core import Violation

# --------------------------------------------------------------------------
# chunkings


@st.composite
def axis_chunks(draw, n, max_parts=None):
    """A composition of n into positive parts ([0] for n == 0)."""
    if n == 0:
        return [0]
    style = draw(st.sampled_from(["random", "random", "random", "one", "ones", "regular"]))
    if style == "one":
        parts = [n]
    elif style == "ones":
        parts = [1] * n
    elif style == "regular":
        c = draw(st.integers(1, n))
        parts = [c] * (n // c) + ([n % c] if n % c else [])
    else:
        # cut points drawn as a bitmask-like list; biased to few cuts for long axes
        p = draw(st.sampled_from([2, 3, 5]))
        cuts = draw(st.lists(st.integers(0, p - 1), min_size=n - 1, max_size=n - 1))
        parts = []
        cur = 1
        for b in cuts:
            if b == 0:
                parts.append(cur)
                cur = 1
            else:
                cur += 1
        parts.append(cur)
    if max_parts is not None and len(parts) > max_parts:
        # merge the tail so that the number of blocks stays bounded
        parts = parts[: max_parts - 1] + [sum(parts[max_parts - 1 :])]
    return parts


@st.composite
def shape_chunks(draw, shape, zero_p=0.1, max_parts=None):
    """Chunks for a whole shape.  With probability ``zero_p`` (one decision per
    array: the separate stratum of DESIGN 4.3) an explicit zero-size chunk is
    inserted on one or two axes."""
    chunks = [draw(axis_chunks(n, max_parts)) for n in shape]
    # (mid-range window: Hypothesis over-samples the end points of integer ranges)
    if shape and zero_p > 0 and 40 <= draw(st.integers(0, 99)) < 40 + round(zero_p * 100):
        naxes = draw(st.integers(1, min(2, len(shape))))
        for _ in range(naxes):
            ax = draw(st.integers(0, len(shape) - 1))
            parts = chunks[ax]
            pos = draw(st.integers(0, len(parts)))
            chunks[ax] = parts[:pos] + [0] + parts[pos:]
    return chunks


@st.composite
def arr(
    draw,
    shape=None,
    min_dims=0,
    max_dims=3,
    min_side=0,
    max_side=6,
    dtypes=("i8", "f8"),
    fills=("small", "arange", "dups", "normal"),
    zero_p=0.1,
    specials=False,
    max_parts=None,
):
    """An array spec understood by vf.arrays.build_np/build_da."""
    if shape is None:
        nd = draw(st.integers(min_dims, max_dims))
        shape = [draw(st.integers(min_side, max_side)) for _ in range(nd)]
    dt = draw(st.sampled_from(list(dtypes)))
    spec = {
        "shape": list(shape),
        "dtype": dt,
        "seed": draw(st.integers(0, 2**16)),
        "fill": draw(st.sampled_from(list(fills))),
        "chunks": draw(shape_chunks(shape, zero_p, max_parts)),
    }
    if specials and np.dtype(dt).kind in "fc":
        spec["special"] = draw(st.lists(st.sampled_from(["nan", "inf", "-inf", "-0"]), max_size=3))
    return spec


def zero_chunk(*array_specs):
    return any(A.has_zero_chunk(a["chunks"]) for a in array_specs if a is not None)


def irregular_on(chunks, axes):
    return any(len(set(chunks[a])) > 1 for a in axes if 0 <= a < len(chunks))


def multi_on(chunks, axes):
    return any(len(chunks[a]) > 1 for a in axes if 0 <= a < len(chunks))


def tt(chunks):
    return tuple(tuple(int(c) for c in ax) for ax in chunks)


# --------------------------------------------------------------------------
# block-wise assembly


def block_slices(chunks):
    """For every block index the tuple of slices it occupies in the full array."""
    starts = []
    for ax in chunks:
        s = [0]
        for c in ax:
            s.append(s[-1] + c)
        starts.append(s)
    out = {}
    for idx in itertools.product(*[range(len(ax)) for ax in chunks]):
        out[idx] = tuple(slice(starts[d][i], starts[d][i + 1]) for d, i in enumerate(idx))
    return out


def assemble(chunks, blocks, dtype):
    """Place blocks (dict block-index -> ndarray) by their index."""
    shape = tuple(sum(ax) for ax in chunks)
    out = np.empty(shape, dtype=dtype)
    for idx, sl in block_slices(chunks).items():
        out[sl] = blocks[idx]
    return out


def known_chunks(chunks):
    return not any(isinstance(c, float) and np.isnan(c) for ax in chunks for c in ax)


def check_chunks_valid(d, what, sig):
    """chunks are ints adding up to the shape."""
    for ax, ch in enumerate(d.chunks):
        if not all(isinstance(c, int) or (isinstance(c, float) and np.isnan(c)) for c in ch):
            raise Violation(f"{what}: non-integer chunk sizes {d.chunks}", "non-int-chunk", **sig)
    if known_chunks(d.chunks):
        if tuple(sum(ch) for ch in d.chunks) != tuple(d.shape):
            raise Violation(f"{what}: chunks {d.chunks} do not add up to shape {d.shape}", "chunks-sum-mismatch", **sig)
