"""C09 — low-level graph optimizations preserve requested values."""
from __future__ import annotations

import itertools

from hypothesis import strategies as st

from vf.core import Reject, Sub, Violation, ensure, impl, short, time_limit
from vf.gen import dags
from vf.graphs import Build, RefEval, flat_request, node_key

PROPERTY = "C09"
LEVEL = "exploration"
RULE = (
    "per function (cull, inline, inline_functions, fuse_linear, fuse, cull->fuse, and on task-spec graphs "
    "fuse_linear_task_spec, task-spec cull, resolve_aliases, Task.fuse, substitute): enum = every DAG on n<=4 (quick) / "
    "n<=5 (thorough) nodes (task/data/alias/list kinds) x every non-empty requested key subset x a parameter grid "
    "(fuse: ave_width in {1,2,3,inf}, max_width/max_height/max_depth_new_edges in {1,2,None}, rename_keys on/off/custom; "
    "fuse_linear rename on/off/custom; inline with inline_constants on/off and every key subset for n<=3; inline_functions "
    "with fast-function subsets; dependencies omitted or taken from cull, as callers do); hyp = random rich legacy graphs "
    "(nested calls, lists, dict idiom, quoted values) to 12 nodes. Oracle: every requested key is present in the output; "
    "dask.core.get on the output graph equals the reference evaluator's value of the input spec for each requested key; a "
    "returned dependency map equals (as sets) the dependencies recomputed on the returned graph. Non-trivial: the "
    "optimization changed the graph and a requested key is an inner node (has dependents) or an alias target."
)
ASSUMPTIONS = [
    "output graphs are evaluated with dask.core.get (its agreement with the reference semantics is C08's subject)",
    "dependencies of output graphs are recomputed with dask.core.get_dependencies",
]
TECHNIQUE = "bounded exhaustive enumeration (graphs x requested subsets x parameter grids) + Hypothesis; metamorphic relation (optimised graph computes the reference values)"

INF = float("inf")


def custom_renamer(keys):
    return "fused|" + "|".join(map(str, keys))


def _rename_arg(v):
    return custom_renamer if v == "custom" else v


def run_opt(case, dsk, keys):
    """Apply the optimisation; returns (out_graph, deps_or_None)."""
    import dask.optimization as opt

    fn = case["fn"]
    p = case.get("params", {})
    flat = list(flat_request(keys)) if isinstance(keys, list) else [keys]
    if fn == "cull":
        return opt.cull(dsk, keys)
    if fn == "inline":
        ik = [k for k in p.get("inline_keys", [])]
        return opt.inline(dsk, keys=ik or None, inline_constants=p.get("inline_constants", True)), None
    if fn == "inline_functions":
        from vf.graphs import TermFn

        fast = [v[0] for v in dsk.values() if type(v) is tuple and v and isinstance(v[0], TermFn) and v[0].name in p.get("fast", [])]
        return opt.inline_functions(dsk, flat, fast_functions=fast, inline_constants=p.get("inline_constants", False)), None
    if fn == "fuse_linear":
        deps = None
        if p.get("cull_first"):
            dsk, deps = opt.cull(dsk, keys)
        return opt.fuse_linear(dsk, keys=flat if p.get("pass_keys", True) else None, dependencies=deps, rename_keys=_rename_arg(p.get("rename_keys", True)))
    if fn == "fuse":
        deps = None
        if p.get("cull_first"):
            dsk, deps = opt.cull(dsk, keys)
        kw = {}
        for name in ("ave_width", "max_width", "max_height", "max_depth_new_edges"):
            if name in p:
                v = p[name]
                kw[name] = INF if v == "inf" else v
        return opt.fuse(dsk, keys=flat if p.get("pass_keys", True) else None, dependencies=deps, rename_keys=_rename_arg(p.get("rename_keys", True)), **kw)
    raise ValueError(fn)


def check_legacy(case):
    import dask.core as core

    g = case["graph"]
    ref = RefEval(g)
    b = Build(g)
    dsk = _reorder(b.graph(), g, case)
    req = case["request"]
    keys = b.keys(req)
    flat_idx = list(flat_request(req)) if isinstance(req, list) else [req]
    sig = dict(fn=case["fn"])
    if case["fn"] == "inline":
        case = dict(case)
        case["params"] = dict(case.get("params", {}))
        case["params"]["inline_keys"] = [node_key(g, i) for i in case["params"].get("inline_idx", [])]
    before = dict(dsk)
    with impl(case["fn"], **sig), time_limit(20, case["fn"], **sig):
        out, deps = run_opt(case, dsk, keys)
    ensure(dsk == before or _same_graph(dsk, before), "input graph was mutated", "input-mutated", **sig)
    no_keys = case["fn"] in ("fuse", "fuse_linear") and not case.get("params", {}).get("pass_keys", True)
    protected = case["fn"] not in ("inline",) and not no_keys
    targets = flat_idx if protected else flat_idx
    for i in targets:
        k = node_key(g, i)
        if k not in out:
            if not protected:
                continue  # inline / fuse without keys= make no promise about which keys survive
            raise Violation(f"requested key {k!r} missing from output graph {short(out)}", "requested-key-missing", **sig)
        with impl("evaluate output graph", **sig):
            got = core.get(out, [k])[0]
        want = ref.node(i)
        ensure(got == want, f"{case['fn']}: key {k!r} computes {short(got)} on the output graph, reference {short(want)}; out={short(out, 500)}", "wrong-value", **sig)
    if case["fn"] == "inline":
        # inline keeps every key of the input graph
        for i in range(len(g["nodes"])):
            k = node_key(g, i)
            ensure(k in out, f"inline dropped key {k!r}", "requested-key-missing", **sig)
            with impl("evaluate output graph", **sig):
                got = core.get(out, [k])[0]
            ensure(got == ref.node(i), f"inline: key {k!r} computes {short(got)}, reference {short(ref.node(i))}", "wrong-value", **sig)
    if deps is not None:
        ensure(set(deps) == set(out), f"dependency map keys {sorted(map(str, deps))} != graph keys {sorted(map(str, out))}", "deps-keys-mismatch", **sig)
        for k in out:
            real = core.get_dependencies(out, k)
            ensure(set(deps[k]) == set(real), f"returned dependencies[{k!r}] = {deps[k]} but the returned graph has {real}", "deps-mismatch", **sig)


def _reorder(dsk, g, case):
    """dict insertion order of the graph (the optimisations iterate over it)"""
    ins = case.get("insertion")
    if ins == "reversed":
        ins = list(range(len(g["nodes"]) - 1, -1, -1))
    if not ins:
        return dsk
    return {node_key(g, i): dsk[node_key(g, i)] for i in ins}


def _same_graph(a, b):
    return a.keys() == b.keys() and all(a[k] is b[k] or a[k] == b[k] for k in a)


# ---- task-spec functions ---------------------------------------------------


def check_taskspec(case):
    import dask._task_spec as ts
    import dask.core as core

    g = case["graph"]
    ref = RefEval(g)
    b = Build(g)
    dsk = _reorder(b.graph(), g, case)
    req = case["request"]
    flat_idx = list(flat_request(req)) if isinstance(req, list) else [req]
    keys = [node_key(g, i) for i in flat_idx]
    fn = case["fn"]
    sig = dict(fn=fn)
    n = len(g["nodes"])
    if fn == "fuse_linear_task_spec":
        with impl(fn, **sig), time_limit(20, fn, **sig):
            out = ts.fuse_linear_task_spec(dsk, set(keys))
    elif fn == "ts_cull":
        with impl(fn, **sig):
            out = ts.cull(dsk, list(keys))
    elif fn == "resolve_aliases":
        deps = {k: v.dependencies for k, v in dsk.items()}
        dependents = core.reverse_dict(deps)
        with impl(fn, **sig), time_limit(20, fn, **sig):
            out = ts.resolve_aliases(dsk, set(keys), dependents)
    elif fn == "Task.fuse":
        # fuse a connected sub-chain ending in the requested node: the node and all
        # its transitive dependencies inside the graph (a valid single-output subgraph)
        i = flat_idx[0]
        members = sorted(ref.needed(i))
        tasks = [dsk[node_key(g, j)] for j in members]
        with impl(fn, **sig):
            fused = ts.Task.fuse(*tasks, key=case.get("params", {}).get("key"))
        ensure(not fused.dependencies, f"fused closed subgraph reports dependencies {fused.dependencies}", "fused-deps", **sig)
        with impl("evaluate fused", **sig):
            got = fused({})
        ensure(got == ref.node(i), f"Task.fuse computes {short(got)}, reference {short(ref.node(i))}", "wrong-value", **sig)
        # and a partial fuse: only the node and its direct dependencies -> external deps must be reported
        direct = sorted({i} | ref.refs(i))
        tasks = [dsk[node_key(g, j)] for j in direct]
        ext = set()
        for j in direct:
            ext |= {node_key(g, x) for x in ref.refs(j)}
        ext -= {node_key(g, j) for j in direct}
        leafs = {node_key(g, j) for j in direct} - {node_key(g, x) for j in direct for x in ref.refs(j)}
        if len(leafs) == 1:
            with impl(fn + " partial", **sig):
                fused = ts.Task.fuse(*tasks)
            ensure(set(fused.dependencies) == ext, f"partial fuse dependencies {set(fused.dependencies)} != external {ext}", "fused-deps", **sig)
            vals = {node_key(g, j): ref.node(j) for j in range(n)}
            with impl("evaluate fused", **sig):
                got = fused({k: vals[k] for k in fused.dependencies})
            ensure(got == ref.node(i), f"partial Task.fuse computes {short(got)}, reference {short(ref.node(i))}", "wrong-value", **sig)
        return
    elif fn == "substitute":
        i = flat_idx[0]
        node = dsk[node_key(g, i)]
        deps = sorted(ref.refs(i))
        vals = {node_key(g, j): ref.node(j) for j in range(n)}
        mode = case.get("params", {}).get("mode", "rename")
        if mode == "rename":
            subs = {node_key(g, j): ("renamed", str(node_key(g, j))) for j in deps[: case.get("params", {}).get("k", 99)]}
            with impl(fn, **sig):
                new = node.substitute(subs, key=case.get("params", {}).get("key"))
            nv = {subs.get(k, k): v for k, v in vals.items()}
            ensure(set(new.dependencies) == {subs.get(node_key(g, j), node_key(g, j)) for j in deps}, f"substituted node dependencies {set(new.dependencies)}", "substitute-deps", **sig)
            with impl("evaluate substituted", **sig):
                got = new({k: nv[k] for k in new.dependencies})
        else:
            # replace the dependency by the node that computes it (inlining)
            subs = {node_key(g, j): dsk[node_key(g, j)] for j in deps[:1]}
            with impl(fn, **sig):
                new = node.substitute(subs)
            with impl("evaluate substituted", **sig):
                got = new({k: vals[k] for k in new.dependencies})
        ensure(got == ref.node(i), f"substitute({mode}) computes {short(got)}, reference {short(ref.node(i))}", "wrong-value", **sig)
        want_key = case.get("params", {}).get("key") if mode == "rename" else None
        if want_key is not None:
            ensure(new.key == want_key, f"substitute(key={want_key!r}) produced key {new.key!r}", "substitute-key", **sig)
        return
    else:
        raise ValueError(fn)
    for i in flat_idx:
        k = node_key(g, i)
        ensure(k in out, f"{fn}: requested key {k!r} missing from output {short(out)}", "requested-key-missing", **sig)
        with impl("evaluate output graph", **sig):
            got = core.get(out, [k])[0]
        ensure(got == ref.node(i), f"{fn}: key {k!r} computes {short(got)}, reference {short(ref.node(i))}; out={short(out, 500)}", "wrong-value", **sig)


def check(case):
    if case["graph"].get("style") == "taskspec":
        return check_taskspec(case)
    return check_legacy(case)


def nontrivial(case):
    g = case["graph"]
    ref = RefEval(g)
    n = len(g["nodes"])
    req = case["request"]
    flat_idx = set(flat_request(req)) if isinstance(req, list) else {req}
    dependents = {i: set() for i in range(n)}
    for i in range(n):
        for j in ref.refs(i):
            dependents[j].add(i)
    inner = any(dependents[i] for i in flat_idx)
    alias_target = any("ref" in g["nodes"][i]["body"] and g["nodes"][i]["body"]["ref"] in flat_idx for i in range(n))
    return (inner or alias_target) and n >= 3


def classes(case):
    yield "fn-" + case["fn"]
    p = case.get("params", {})
    for k in ("rename_keys", "ave_width", "cull_first", "inline_constants"):
        if k in p:
            yield f"{k}={p[k]}"


LEGACY_GRID = {
    "cull": [{}],
    "inline": [{"inline_constants": True}, {"inline_constants": False}],
    "inline_functions": [{"fast": ["f0", "f1"]}, {"fast": ["f1", "f2", "f3"], "inline_constants": True}, {"fast": ["f0", "f1", "f2", "f3"]}],
    "fuse_linear": [{"rename_keys": True}, {"rename_keys": False}, {"rename_keys": "custom", "cull_first": True}, {"rename_keys": True, "pass_keys": False}],
    "fuse": [
        {"ave_width": 1},
        {"ave_width": 2, "rename_keys": False},
        {"ave_width": 3, "max_width": 2},
        {"ave_width": "inf", "rename_keys": "custom"},
        {"ave_width": 2, "max_height": 1},
        {"ave_width": 2, "max_height": 2, "max_depth_new_edges": 1, "cull_first": True},
        {"ave_width": 3, "max_width": 1, "max_depth_new_edges": 2, "rename_keys": False, "cull_first": True},
        {"ave_width": "inf", "max_depth_new_edges": None, "max_height": None, "max_width": None},
    ],
}
TS_FNS = ["fuse_linear_task_spec", "ts_cull", "resolve_aliases", "Task.fuse", "substitute"]


def enum_cases(tier):
    nmax = 4 if tier == "quick" else 5
    idx = 0
    for n in range(1, nmax + 1):
        for gi, shape in enumerate(dags.all_dags(n)):
            gl = dags.dag_spec(shape, "legacy", ["mixed", "str", "collide", "str", "dashed", "str"][gi % 6])
            gt = dags.dag_spec(shape, "taskspec", ["tuple", "str", "collide", "str", "tuple", "dashed"][gi % 6])
            reqs = [list(c) for r in range(1, n + 1) for c in itertools.combinations(range(n), r)]
            for req in reqs:
                for fn, grid in LEGACY_GRID.items():
                    idx += 1
                    params = dict(grid[idx % len(grid)])
                    if fn == "inline":
                        # which keys to inline: every subset for n<=3, else a rotating subset
                        if n <= 3:
                            for r in range(0, n + 1):
                                for c in itertools.combinations(range(n), r):
                                    yield {"graph": gl, "request": req, "fn": fn, "params": dict(params, inline_idx=list(c))}
                            continue
                        params["inline_idx"] = [i for i in range(n) if (idx >> i) & 1]
                    c = {"graph": gl, "request": req, "fn": fn, "params": params}
                    if idx % 3 == 0:
                        c["insertion"] = "reversed"
                    yield c
                for fn in TS_FNS:
                    idx += 1
                    params = {}
                    if fn == "substitute":
                        params = [{"mode": "rename"}, {"mode": "rename", "key": "newkey", "k": 1}, {"mode": "inline"}][idx % 3]
                    if fn == "Task.fuse":
                        params = [{}, {"key": "fusedkey"}][idx % 2]
                    if fn in ("Task.fuse", "substitute") and len(req) != 1:
                        continue
                    if fn == "substitute" and not ("call" in gt["nodes"][req[0]]["body"] or "list" in gt["nodes"][req[0]]["body"] or "ref" in gt["nodes"][req[0]]["body"]):
                        continue
                    c = {"graph": gt, "request": req, "fn": fn, "params": params}
                    if idx % 2 == 0:
                        c["insertion"] = "reversed"
                    yield c


@st.composite
def random_case(draw):
    style = draw(st.sampled_from(["legacy", "legacy", "taskspec"]))
    if draw(st.booleans()):
        g = draw(dags.rich_graph(min_nodes=2, max_nodes=10, styles=(style,)))
    else:
        g = draw(dags.shape_graph(min_nodes=3, max_nodes=12))
        g["style"] = style
    n = len(g["nodes"])
    req = draw(st.lists(st.integers(0, n - 1), min_size=1, max_size=4, unique=True))
    if style == "taskspec":
        fn = draw(st.sampled_from(["fuse_linear_task_spec", "ts_cull", "resolve_aliases", "Task.fuse"]))
        if fn == "Task.fuse":
            req = req[:1]
        return {"graph": g, "request": req, "fn": fn, "params": {}, "insertion": list(draw(st.permutations(list(range(n)))))}
    fn = draw(st.sampled_from(list(LEGACY_GRID)))
    params = dict(draw(st.sampled_from(LEGACY_GRID[fn])))
    if fn == "fuse":
        params = {
            "ave_width": draw(st.sampled_from([1, 2, 3, "inf"])),
            "rename_keys": draw(st.sampled_from([True, False, "custom"])),
            "cull_first": draw(st.booleans()),
        }
        for name in ("max_width", "max_height", "max_depth_new_edges"):
            v = draw(st.sampled_from(["unset", 1, 2, None]))
            if v != "unset":
                params[name] = v
    if fn == "inline":
        params["inline_idx"] = draw(st.lists(st.integers(0, n - 1), max_size=4, unique=True))
    return {"graph": g, "request": req, "fn": fn, "params": params, "insertion": list(draw(st.permutations(list(range(n)))))}


def twin_chain_cases(tier):
    """Two (or three) separate linear chains whose FUSED names coincide under the default renamer although all keys differ:
    x <- c <- b is renamed 'x-c-b', and so is 'x-1' <- 'c-b' (key_split drops the '-1').  Both chain ends are requested; every
    fusing function, with renaming on."""
    names = [["x", "c", "b"], ["x-1", "c-b"], ["x-2", "c-b-3"]]
    for nchains in (2, 3):
        shape, ks, tops = [], [], []
        for ch in names[:nchains]:
            base = len(shape)
            for j, k in enumerate(ch):
                shape.append({"kind": "task", "deps": [] if j == 0 else [base + j - 1]})
                ks.append(k)
            tops.append(len(shape) - 1)
        for style in ("legacy",):
            g = dags.dag_spec(shape, style, "str")
            for node, k in zip(g["nodes"], ks):
                node["k"] = k
            for req in ([tops[0], tops[1]], list(reversed(tops)), tops):
                for fn, params in (("fuse_linear", {"rename_keys": True}), ("fuse_linear", {"rename_keys": True, "pass_keys": False}), ("fuse", {"ave_width": 1}), ("fuse", {"ave_width": "inf"})):
                    for ins in (None, "reversed"):
                        c = {"graph": g, "request": req, "fn": fn, "params": dict(params)}
                        if ins:
                            c["insertion"] = ins
                        yield c


SUBCHECKS = [
    Sub(
        "enum",
        check,
        kind="enum",
        cases=enum_cases,
        nontrivial=nontrivial,
        classes=classes,
        exhaustive=True,
        budget_s={"quick": 90, "thorough": 1500},
        doc="all small DAGs x requested subsets x function x parameter grid",
    ),
    Sub("twin-chains", check, kind="enum", cases=twin_chain_cases, nontrivial=lambda c: True, classes=classes, exhaustive=True,
        doc="2-3 disjoint linear chains with pairwise different keys whose default fused names coincide ('x-c-b'): fuse_linear / fuse with renaming (legacy graphs), request orders, insertion orders"),
    Sub(
        "random",
        check,
        strategy=lambda tier: random_case(),
        n={"quick": 2000, "thorough": 50000},
        nontrivial=nontrivial,
        classes=classes,
        doc="random rich graphs, functions and parameters",
    ),
]
