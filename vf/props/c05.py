"""C05 — callbacks fire in protocol order; callback contexts nest like a stack.

Histories are generated as op lists (one JSON value, shrinks as a whole) and
interpreted against a model updated in lock-step: registered set + stack of
open contexts.  Active(model) = registered ∪ ⋃ open contexts.
"""
from __future__ import annotations

from hypothesis import strategies as st

from vf.core import Sub, Violation, ensure, impl
from vf.gen import dags
from vf.graphs import RefEval, is_callable_node, node_key
from vf.schedengine import execute

PROPERTY = "C05"
LEVEL = "exploration"
RULE = (
    "histories = op lists over 3 callback objects (a Callback subclass instance, a Callback built from functions with only "
    "some hooks set, a raw 5-tuple): enter `with cb` / `add_callbacks(cb_i, cb_j)` (the same object may be entered again "
    "while active), exit innermost, register(), unregister() (only where the model makes the expected state unambiguous), "
    "run a scheduler call on a small random graph (sync / controlled executor / threads; optionally with a failing task; "
    "optionally a task that itself runs a nested scheduler call). Model: active = registered ∪ open contexts. After every "
    "scheduler call, per callback object: fired iff model-active; start once before any pretask; finish once, last, with "
    "the right failed flag; every executed task one pretask then one posttask (failing task: no posttask). After every "
    "exit/op: every model-active callback is still in Callback.active. enum: all histories up to length 5 (quick) over a "
    "reduced op alphabet; hyp: random histories up to 14 ops. Non-trivial: the history re-enters a callback that is already "
    "active (same object nested, or context inside register()) and runs a scheduler call after the inner exit."
)
ASSUMPTIONS = [
    "callbacks are used through the global mechanism (no callbacks= argument), as compute() does",
    "register()/unregister() while the same callback is active through an open context is left out (the statement is silent)",
]
TECHNIQUE = "model-based testing over generated call histories (op lists interpreted against a stack model), exhaustive for short histories + Hypothesis"

NOBJ = 3


class Recorder:
    def __init__(self):
        self.events = []


def make_objects():
    from dask.callbacks import Callback

    recs = [Recorder() for _ in range(NOBJ)]

    class Sub0(Callback):
        def _start(self, dsk):
            recs[0].events.append(("start",))

        def _start_state(self, dsk, state):
            recs[0].events.append(("start_state",))

        def _pretask(self, key, dsk, state):
            recs[0].events.append(("pretask", key))

        def _posttask(self, key, result, dsk, state, id):
            recs[0].events.append(("posttask", key))

        def _finish(self, dsk, state, failed):
            recs[0].events.append(("finish", failed))

    o0 = Sub0()
    r1 = recs[1]
    o1 = Callback(
        start=lambda dsk: r1.events.append(("start",)),
        pretask=lambda key, dsk, state: r1.events.append(("pretask", key)),
        finish=lambda dsk, state, failed: r1.events.append(("finish", failed)),
    )
    r2 = recs[2]
    o2 = (
        lambda dsk: r2.events.append(("start",)),
        None,
        lambda key, dsk, state: r2.events.append(("pretask", key)),
        lambda key, result, dsk, state, id: r2.events.append(("posttask", key)),
        lambda dsk, state, failed: r2.events.append(("finish", failed)),
    )
    has = [
        {"start", "start_state", "pretask", "posttask", "finish"},
        {"start", "pretask", "finish"},
        {"start", "pretask", "posttask", "finish"},
    ]
    return [o0, o1, o2], recs, has


class NestedRun:
    """Task body that runs a scheduler call of its own (nested scheduler)."""

    def __call__(self, *a):
        import dask.local

        return ("nested", dask.local.get_sync({"p": (len, [1, 2, 3]), "q": (str, "p")}, "q"))


def normalized(obj):
    from dask.callbacks import normalize_callback

    return normalize_callback(obj)


def check(spec):
    from dask.callbacks import Callback, add_callbacks

    Callback.active = set()
    objs, recs, has = make_objects()
    registered = set()
    stack = []  # list of (ids, context manager)
    try:
        for step, op in enumerate(spec["ops"]):
            kind = op[0]
            where = f"step {step} {op[:2]}"
            if kind == "enter":
                ids = op[1]
                with impl("add_callbacks"):
                    cm = add_callbacks(*[objs[i] for i in ids])
                    cm.__enter__()
                stack.append((list(ids), cm))
            elif kind == "enter_cb":
                i = op[1]
                if i == 2:
                    continue  # raw tuples have no __enter__
                with impl("Callback.__enter__"):
                    objs[i].__enter__()
                stack.append(([i], objs[i]))
            elif kind == "exit":
                if not stack:
                    continue
                ids, cm = stack.pop()
                with impl("context exit"):
                    cm.__exit__(None, None, None)
            elif kind == "register":
                i = op[1]
                if i == 2 or any(i in ids for ids, _ in stack):
                    continue
                with impl("register"):
                    objs[i].register()
                registered.add(i)
            elif kind == "unregister":
                i = op[1]
                if i not in registered or any(i in ids for ids, _ in stack):
                    continue
                with impl("unregister"):
                    objs[i].unregister()
                registered.discard(i)
            elif kind == "run":
                run_and_check(op[1], objs, recs, has, registered, stack, where)
            active_model = set(registered)
            for ids, _ in stack:
                active_model |= set(ids)
            for i in active_model:
                ensure(
                    normalized(objs[i]) in Callback.active,
                    f"after {where}: callback object {i} should be active (registered={sorted(registered)}, open contexts={[ids for ids, _ in stack]}) but is not in Callback.active",
                    "deactivated-by-inner-exit" if kind == "exit" else "not-active",
                    op=kind,
                )
            for i in range(NOBJ):
                if i not in active_model:
                    ensure(
                        normalized(objs[i]) not in Callback.active,
                        f"after {where}: callback object {i} still active outside every context/registration",
                        "leaked-activation",
                        op=kind,
                    )
    finally:
        Callback.active = set()


def run_and_check(run, objs, recs, has, registered, stack, where):
    g = run["graph"]
    req = run["request"]
    sched = run["sched"]
    opts = {}
    fail = run.get("fail")
    if fail:
        opts["fail"] = fail
    for r in recs:
        r.events.clear()
    if run.get("nested"):
        # make node 0 a nested-scheduler task
        import copy

        g = copy.deepcopy(g)
    out = execute(g, req, sched, opts, global_callbacks=True) if not run.get("nested") else _execute_nested(g, req, sched, opts)
    ref = RefEval(g)
    need = ref.needed(req)
    failing_needed = {int(k) for k in (fail or {}) if int(k) in need}
    if failing_needed:
        ensure(out.raised is not None, f"{where}: failing task needed but call returned", "exception-swallowed")
    else:
        ensure(out.raised is None, f"{where}: scheduler raised {out.raised!r}", "raises")
    active_model = set(registered)
    for ids, _ in stack:
        active_model |= set(ids)
    keyof = {node_key(g, i): i for i in range(len(g["nodes"]))}
    for i in range(NOBJ):
        ev = list(recs[i].events)
        if i not in active_model:
            ensure(not ev, f"{where}: inactive callback object {i} fired {ev[:4]}", "inactive-fired")
            continue
        ensure(ev, f"{where}: active callback object {i} did not fire at all", "active-not-fired")
        starts = [j for j, e in enumerate(ev) if e[0] == "start"]
        fins = [j for j, e in enumerate(ev) if e[0] == "finish"]
        ensure(len(starts) == 1 and starts[0] == 0, f"{where}: object {i}: start events at {starts} in {ev[:6]}", "start-protocol")
        ensure(len(fins) == 1 and fins[0] == len(ev) - 1, f"{where}: object {i}: finish events at {fins} of {len(ev)}", "finish-protocol")
        ensure(ev[-1][1] == bool(failing_needed), f"{where}: object {i}: finish(failed={ev[-1][1]}), expected {bool(failing_needed)}", "finish-flag")
        pre = {}
        post = {}
        for e in ev:
            if e[0] == "pretask":
                pre[e[1]] = pre.get(e[1], 0) + 1
            elif e[0] == "posttask":
                post[e[1]] = post.get(e[1], 0) + 1
                ensure(pre.get(e[1], 0) >= post[e[1]], f"{where}: object {i}: posttask({e[1]!r}) before pretask", "posttask-before-pretask")
        for k, c in pre.items():
            ensure(c == 1, f"{where}: object {i}: pretask({k!r}) x{c}", "pretask-count")
            if run.get("nested") and k == "nested-task":
                continue  # the extra task that runs the nested scheduler call
            ensure(k in keyof and keyof[k] in need, f"{where}: object {i}: pretask for unneeded/unknown key {k!r}", "pretask-unneeded")
        if "posttask" in has[i]:
            for k, c in post.items():
                ensure(c == 1, f"{where}: object {i}: posttask({k!r}) x{c}", "posttask-count")
            if not failing_needed:
                # (the nested scheduler's own tasks 'p'/'q' must not reach the outer callbacks: they are not keys of this graph)
                ensure(set(pre) == set(post), f"{where}: object {i}: pretask keys {sorted(map(str, pre))} != posttask keys {sorted(map(str, post))}", "pre-post-mismatch")
                for j in need:
                    if is_callable_node(g["nodes"][j]["body"]):
                        ensure(node_key(g, j) in pre, f"{where}: object {i}: no pretask for executed task {node_key(g, j)!r}", "pretask-missing")
            else:
                for f in failing_needed:
                    ensure(node_key(g, f) not in post, f"{where}: object {i}: posttask for the failing task", "posttask-for-failed")
                ensure(len(pre) - len(post) >= 1, f"{where}: object {i}: every pretask has a posttask although a task failed", "pre-post-mismatch")


def _execute_nested(g, req, sched, opts):
    """Run the graph with an extra task that runs a scheduler call of its own."""
    import dask.local as local

    from vf.graphs import RUNTIME, Build
    from vf.schedengine import Outcome

    out = Outcome()
    RUNTIME.reset()
    b = Build(g, opts)
    dsk = b.graph()
    dsk["nested-task"] = (NestedRun(),)
    keys = b.keys(req)
    keys = [keys, "nested-task"]
    try:
        out.value = local.get_sync(dsk, keys)
    except BaseException as e:  # noqa: BLE001
        out.raised = e
    return out


def model_flags(spec):
    """(re-entry happened while active, run after an inner exit that followed a re-entry)"""
    registered = set()
    stack = []
    reentry = False
    armed = False
    hit = False
    for op in spec["ops"]:
        k = op[0]
        if k in ("enter", "enter_cb"):
            ids = op[1] if k == "enter" else [op[1]]
            if k == "enter_cb" and op[1] == 2:
                continue
            act = set(registered)
            for s in stack:
                act |= set(s)
            if act & set(ids):
                reentry = True
                stack.append(list(ids) + ["R"])
            else:
                stack.append(list(ids))
        elif k == "exit" and stack:
            s = stack.pop()
            if "R" in s:
                armed = True
        elif k == "register":
            if op[1] != 2 and not any(op[1] in s for s in stack):
                registered.add(op[1])
        elif k == "unregister":
            if op[1] in registered and not any(op[1] in s for s in stack):
                registered.discard(op[1])
        elif k == "run" and armed:
            hit = True
    return reentry, hit


def nontrivial(spec):
    return model_flags(spec)[1]


def classes(spec):
    re, hit = model_flags(spec)
    if re:
        yield "re-entry-while-active"
    if hit:
        yield "run-after-inner-exit"
    for op in spec["ops"]:
        if op[0] == "run":
            yield "run-" + op[1]["sched"]["kind"]
            if op[1].get("fail"):
                yield "run-with-failure"
            if op[1].get("nested"):
                yield "run-nested-scheduler"


SMALL_RUN = {
    "graph": {"style": "legacy", "nodes": [{"k": "k0", "body": {"call": "f0", "args": [{"lit": 1}]}}, {"k": "k1", "body": {"call": "f1", "args": [{"ref": 0}]}}]},
    "request": 1,
    "sched": {"kind": "sync"},
}
FAIL_RUN = dict(SMALL_RUN, fail={"0": ["ValueError", "injected-0"]})


def enum_cases(tier):
    import itertools

    alphabet = [["enter_cb", 0], ["enter", [0, 2]], ["enter", [1]], ["exit"], ["register", 0], ["unregister", 0], ["run", SMALL_RUN], ["run", FAIL_RUN]]
    maxlen = 5 if tier == "quick" else 6
    for n in range(1, maxlen + 1):
        for combo in itertools.product(range(len(alphabet)), repeat=n):
            # keep histories that contain at least one run or end with exit (others observe nothing new)
            ops = [alphabet[c] for c in combo]
            if not any(o[0] in ("run", "exit") for o in ops):
                continue
            yield {"ops": ops}


@st.composite
def run_spec(draw):
    g = draw(dags.shape_graph(min_nodes=2, max_nodes=6))
    n = len(g["nodes"])
    req = draw(dags.request_for(n))
    kind = draw(st.sampled_from(["sync", "controlled", "threads"]))
    sched = {"kind": kind}
    if kind != "sync":
        sched.update(workers=draw(st.integers(1, 4)), chunksize=draw(st.sampled_from([1, 2, -1])))
    if kind == "controlled":
        sched["choices"] = draw(st.lists(st.integers(0, 5), min_size=4, max_size=12))
    run = {"graph": g, "request": req, "sched": sched}
    callables = [i for i in range(n) if is_callable_node(g["nodes"][i]["body"])]
    mode = draw(st.integers(0, 5))
    if mode == 0 and callables:
        f = draw(st.sampled_from(callables))
        run["fail"] = {str(f): [draw(st.sampled_from(["ValueError", "custom", "base"])), f"injected-{f}"]}
    elif mode == 1:
        run["nested"] = True
        run["sched"] = {"kind": "sync"}
    return run


@st.composite
def history(draw):
    nops = draw(st.integers(2, 14))
    ops = []
    for _ in range(nops):
        k = draw(st.sampled_from(["enter", "enter_cb", "exit", "exit", "register", "unregister", "run", "run"]))
        if k == "enter":
            ops.append(["enter", draw(st.lists(st.integers(0, NOBJ - 1), min_size=1, max_size=2, unique=True))])
        elif k in ("enter_cb", "register", "unregister"):
            ops.append([k, draw(st.integers(0, 1))])
        elif k == "exit":
            ops.append(["exit"])
        else:
            ops.append(["run", draw(run_spec())])
    return {"ops": ops}


SUBCHECKS = [
    Sub(
        "enum",
        check,
        kind="enum",
        cases=enum_cases,
        nontrivial=nontrivial,
        classes=classes,
        exhaustive=True,
        budget_s={"quick": 60, "thorough": 900},
        doc="all histories up to length 5 (quick) / 6 (thorough) over an 8-op alphabet",
    ),
    Sub(
        "random",
        check,
        strategy=lambda tier: history(),
        n={"quick": 800, "thorough": 20000},
        nontrivial=nontrivial,
        classes=classes,
        doc="random histories up to 14 ops with random graphs, schedulers, failures and nested scheduler calls",
    ),
]
