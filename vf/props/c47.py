"""C47 — CSV round trips preserve data; read_csv == pandas.read_csv for every blocksize.

Anchors: dask/dataframe/io/csv.py (to_csv, read_pandas, text_blocks_to_pandas) and dask/bytes/core.py (read_bytes).
The parquet half of the statement is unreachable here (no pyarrow, DESIGN 7).
"""
from __future__ import annotations

import csv
import io
import os
import tempfile

import pandas as pd
from hypothesis import strategies as st

from vf import frames as F
from vf.core import Reject, Sub, count, ensure, impl, reference
from vf.props import _dfcommon2 as C
from vf.props import _dfcommon3 as D

PROPERTY = "C47"
PRELOAD = ["dask.dataframe"]
LEVEL = "exploration"
RULE = (
    "roundtrip (hyp): frames of 0-25 rows (int, float with NaN, bool, python-str and object strings containing commas, "
    "quotes, blanks and - only together with blocksize=None, as dask documents - newlines; NaN strings; datetimes with NaT; "
    "range / int / string index, named or not), any source partitioning incl. EMPTY partitions, written with "
    "to_csv(directory glob | name_function | single_file, index on/off, sep, quoting) and read back with "
    "read_csv(blocksize None | 1 byte .. 4 kB, explicit dtypes, parse_dates): must equal what pandas gives for its own "
    "to_csv -> read_csv round trip of the unpartitioned frame (that is the normal form CSV allows: '' -> NaN etc.). "
    "read (hyp): CSV text produced by pandas with random sep / line terminator (\\n, \\r\\n) / quoting / header or "
    "names= / skiprows with junk lines / na_rep, read by dd.read_csv with every kind of blocksize vs pandas.read_csv "
    "with the same keywords; dtype given explicitly, or inferred when all rows fit dask's 10-row inference sample. "
    "Non-trivial: >= 2 data rows and a blocksize smaller than the longest line (blocks end inside rows; header, quoted "
    "fields and row boundaries fall on block boundaries)."
)
ASSUMPTIONS = [
    "row order is compared exactly, the index of the read frame is ignored (read_csv gives every partition its own RangeIndex)",
    "dask documents that quoted fields containing the line terminator need blocksize=None: newlines are only generated then",
    "dtypes are passed explicitly (dask infers from a sample of the first rows and documents that later rows may disagree); "
    "inference is compared only when the file has <= 10 rows",
    "name_function is order preserving (zero padded), as to_csv requires; header_first_partition_only only with single_file",
    "zero-byte input files (no header line and no rows) are not explored",
    "to_parquet/read_parquet: not exercised (pyarrow unavailable)",
]
TECHNIQUE = "differential testing against pandas' own CSV writer/reader with Hypothesis-generated frames, layouts, dialects and blocksizes"

KINDS = ("int", "float", "str", "obj", "bool", "datetime", "key")
DTYPES = {"int": "int64", "key": "int64", "float": "float64", "bool": "bool", "str": "str", "obj": object}
BLOCKSIZES = [None, None, 1, 2, 3, 5, 8, 13, 21, 40, 100, 4096]


def build(spec):
    pdf = F.build_pdf(spec)
    if spec.get("newline"):
        for c in spec["columns"]:
            if c["kind"] in ("str", "obj") and len(pdf):
                pdf[c["name"]] = pdf[c["name"]].where(pdf[c["name"]] != "ab", "li\nne")
    return pdf


def read_kwargs(spec, sep=","):
    dt = {c["name"]: DTYPES[c["kind"]] for c in spec["columns"] if c["kind"] != "datetime"}
    dates = [c["name"] for c in spec["columns"] if c["kind"] == "datetime"]
    kw = {"dtype": dt, "sep": sep}
    if dates:
        # ISO8601: pandas writes date-only text when every time of a (partition) frame is midnight, so one column may
        # hold both spellings; pandas' default format guessing from the first value would then give up on the column
        kw.update(parse_dates=dates, date_format="ISO8601")
    return kw


def longest_line(text):
    return max((len(x) for x in text.split("\n")), default=0)


def text_flags(spec, text, bs, skip=0, header=True):
    """Input classes: blocks shorter than a line (=> empty blocks), a date column, a data line that starts with the
    text of the header line."""
    lines = text.split("\n")[skip:]
    head = lines[0].rstrip("\r") if header and lines else None
    return dict(
        tiny_block=bool(bs and bs < longest_line(text)),
        # blocks without any row: several block offsets inside one line (incl. its terminator)
        empty_block=bool(bs and bs <= longest_line(text) + 2),
        dates=any(c["kind"] == "datetime" for c in spec["columns"]),
        hdr_prefix=bool(head) and any(x.startswith(head) for x in lines[1:]),
    )


def compare(got, want, what, sig, meta=None):
    D.close_eq(got.reset_index(drop=True), want.reset_index(drop=True), what=what, sig=sig, meta=meta, rtol=0, atol=0)


def check_roundtrip(spec):
    import dask.dataframe as dd

    w = spec["write"]
    with C.quiet():
        pdf = build(spec)
        src = C.build_ddf(spec, pdf)
    kw = read_kwargs(spec, w["sep"])
    wkw = dict(index=w["index"], sep=w["sep"], quoting=w["quoting"])
    text = pdf.to_csv(**wkw)
    status, want = reference(pd.read_csv, io.StringIO(text), **kw)
    if status == "err":
        raise Reject(f"pandas cannot read its own output: {want}")
    bs = spec["blocksize"]
    sig = dict(op="roundtrip", layout=w["layout"], norows=len(pdf) == 0, **text_flags(spec, text, bs))
    if 0 in (C.piece_lengths(spec, pdf) or [1]) or len(pdf) == 0:
        sig["empty_block"] = True  # header-only file of an empty partition
    with tempfile.TemporaryDirectory(prefix="vf-c47-") as tmp:
        with impl("to_csv", stage="write", **sig), C.quiet():
            if w["layout"] == "single":
                target = os.path.join(tmp, "out.csv")
                files = src.to_csv(target, single_file=True, compute_kwargs={"scheduler": "sync"}, **wkw)
            elif w["layout"] == "named":
                target = os.path.join(tmp, "d", "*.csv")
                files = src.to_csv(target, name_function=_name, compute_kwargs={"scheduler": "sync"}, **wkw)
            else:
                target = os.path.join(tmp, "d", "*.csv")
                files = src.to_csv(target, compute_kwargs={"scheduler": "sync"}, **wkw)
        ensure(all(os.path.exists(f) for f in files) and len(files) == (1 if w["layout"] == "single" else src.npartitions), f"to_csv returned {files} for {src.npartitions} partitions", "files", **sig)
        # the files, concatenated in order and read by pandas, hold exactly the frame (writer judged on its own)
        # (a header-only file of an empty partition has no values to type: pandas itself reads object columns from it)
        with impl("pandas.read_csv of the files written by to_csv", stage="write", **sig):
            pieces = [x for x in (pd.read_csv(f, **kw) for f in files) if len(x)]
        compare(pd.concat(pieces) if pieces else want, want, "files written by to_csv, read by pandas", dict(sig, stage="write"))
        with impl("read_csv of the written files", stage="read", **sig), C.quiet():
            back = dd.read_csv(target, blocksize=bs, **kw)
            got = F.compute(back)
        compare(got, want, f"to_csv({w}) -> read_csv(blocksize={bs})", dict(sig, stage="read"), meta=back._meta)


def _name(i):
    return f"part-{i:03d}"


def check_read(spec):
    import dask.dataframe as dd

    r = spec["read"]
    with C.quiet():
        pdf = build(spec)
    term = r["term"]
    text = pdf.to_csv(index=False, sep=r["sep"], quoting=r["quoting"], header=r["header"], lineterminator=term, na_rep=r["na_rep"])
    text = "".join(f"junk {i}{term}" for i in range(r["skiprows"])) + text
    kw = read_kwargs(spec, r["sep"])
    if r["infer"]:
        kw.pop("dtype")
    if not r["header"] and r.get("names", True):
        kw.update(header=None, names=[c["name"] for c in spec["columns"]])
    elif not r["header"]:
        # header=None WITHOUT names: the columns are labelled 0..n-1; dtype / parse_dates are given by position
        pos = {c["name"]: i for i, c in enumerate(spec["columns"])}
        kw["header"] = None
        if "dtype" in kw:
            kw["dtype"] = {pos[k]: v for k, v in kw["dtype"].items()}
        if "parse_dates" in kw:
            kw["parse_dates"] = [pos[k] for k in kw["parse_dates"]]
    if r["skiprows"]:
        kw["skiprows"] = r["skiprows"]
    if r["na_rep"]:
        kw["na_values"] = [r["na_rep"]]
    data = text.encode()
    if not data:
        raise Reject("zero-byte file (no header, no rows): not explored")
    status, want = reference(pd.read_csv, io.BytesIO(data), **kw)
    if status == "err":
        raise Reject(f"pandas rejects the file: {want}")
    bs = spec["blocksize"]
    sig = dict(op="read", crlf=term == "\r\n", header=bool(r["header"]), skiprows=bool(r["skiprows"]), infer=bool(r["infer"]), norows=len(pdf) == 0, **text_flags(spec, text, bs, r["skiprows"], r["header"]))
    with tempfile.TemporaryDirectory(prefix="vf-c47-") as tmp:
        path = os.path.join(tmp, "in.csv")
        with open(path, "wb") as f:
            f.write(data)
        try:
            with C.quiet():
                back = dd.read_csv(path, blocksize=bs, **kw)
                got = F.compute(back)
        except Exception as e:  # noqa: BLE001
            # With skiprows dask cuts its header/dtype sample down to ``blocksize`` bytes (it warns about it) and says so
            # when that no longer holds the skipped lines, the header and one row: a stated limit of the reader, accepted
            # exactly when the first ``blocksize`` bytes really do not contain those lines.
            need = r["skiprows"] + (2 if r["header"] else 1)
            if r["skiprows"] and bs and "Sample is not large enough" in str(e) and bs <= len(data) and data[:bs].count(b"\n") < need:
                count("sample-too-small-as-documented")
                return
            with impl(f"read_csv(blocksize={bs}, {sorted(k for k in kw if k != 'dtype')})", **sig):
                raise
    compare(got, want, f"read_csv(blocksize={bs}) of {len(data)} bytes", sig, meta=back._meta)


def _rows_text_short(spec):
    return spec["nrows"] >= 2 and spec["blocksize"] is not None and spec["blocksize"] <= 21


def classes(spec):
    bs = spec["blocksize"]
    yield "blocksize-none" if bs is None else ("blocksize<=8" if bs <= 8 else ("blocksize<=40" if bs <= 40 else "blocksize-large"))
    for c in spec["columns"]:
        yield "kind-" + c["kind"]
    if spec.get("newline"):
        yield "quoted-newline"
    if "write" in spec:
        yield "layout-" + spec["write"]["layout"]
        yield "index-written" if spec["write"]["index"] else "index-dropped"
        yield "src-" + spec["partition"]["how"]
    else:
        r = spec["read"]
        yield "crlf" if r["term"] == "\r\n" else "lf"
        for k in ("header", "skiprows", "infer", "na_rep"):
            if r[k]:
                yield k


@st.composite
def base(draw, max_rows=25):
    spec = draw(F.frame_spec(min_rows=0, max_rows=max_rows, kinds=KINDS, max_cols=4, index_kinds=("range", "sorted_unique", "str"), allow_cuts=True))
    for c in spec["columns"]:
        if c["kind"] == "bool":
            c.pop("nan", None)
    spec["newline"] = draw(st.integers(0, 5)) == 0
    spec["blocksize"] = None if spec["newline"] else draw(st.sampled_from(BLOCKSIZES))
    return spec


@st.composite
def roundtrip_case(draw):
    spec = draw(base())
    spec["write"] = {
        "layout": draw(st.sampled_from(["dir", "named", "single"])),
        "index": draw(st.booleans()),
        "sep": draw(st.sampled_from([",", ",", ";", "\t"])),
        "quoting": draw(st.sampled_from([csv.QUOTE_MINIMAL, csv.QUOTE_MINIMAL, csv.QUOTE_ALL, csv.QUOTE_NONNUMERIC])),
    }
    return spec


@st.composite
def read_case(draw):
    infer = draw(st.integers(0, 3)) == 0
    spec = draw(base(max_rows=10 if infer else 25))
    spec.pop("partition", None)
    spec["read"] = {
        "sep": draw(st.sampled_from([",", ",", ";", "\t", "|"])),
        "term": draw(st.sampled_from(["\n", "\n", "\r\n"])),
        "quoting": draw(st.sampled_from([csv.QUOTE_MINIMAL, csv.QUOTE_ALL, csv.QUOTE_NONNUMERIC])),
        "header": draw(st.sampled_from([True, True, False])),
        "names": draw(st.booleans()),
        # with skiprows dask cuts its dtype-inference sample down to blocksize bytes (and warns): inference is then
        # documented to be unreliable, so the inferring variant never skips rows
        "skiprows": 0 if infer else draw(st.sampled_from([0, 0, 1, 3])),
        "na_rep": draw(st.sampled_from(["", "", "NULL"])),
        "infer": infer,
    }
    return spec


def check_skipfooter(case):
    """read_csv(skipfooter=N, engine="python") of a file whose last N lines are trailer text, cut into blocks: the data rows
    are all there (== pandas.read_csv with the same options) whichever block they fall into."""
    import dask.dataframe as dd

    nrows, nfoot, bs = case["nrows"], case["skipfooter"], case["blocksize"]
    body = "a,b\n" + "".join(f"{i},{(i * 7) % 5}\n" for i in range(nrows))
    foot = "".join(f"# trailer {k}\n" for k in range(nfoot))
    data = (body + foot).encode()
    kw = dict(skipfooter=nfoot, engine="python")
    if not case.get("infer"):
        kw["dtype"] = {"a": "int64", "b": "int64"}
    want = pd.read_csv(io.BytesIO(data), **kw)
    # where the last block starts once dask has moved its start behind the next line end
    size = len(data)
    if bs is None or bs >= size:
        last_start = 0
    else:
        raw = ((size - 1) // bs) * bs
        nl = data.find(b"\n", raw)
        last_start = size if nl < 0 else nl + 1
    sig = dict(op="read", skipfooter=True, infer=bool(case.get("infer")), sample_reaches_footer=bool(case.get("sample_all")), multi_block=bool(bs) and bs < size, footer_straddles=last_start > len(body.encode()))
    with tempfile.TemporaryDirectory(prefix="vf-c47-") as tmp:
        path = os.path.join(tmp, "in.csv")
        with open(path, "wb") as f:
            f.write(data)
        with impl(f"read_csv(blocksize={bs}, skipfooter={nfoot}, engine='python')", **sig), C.quiet():
            # the header/dtype sample is kept short of the trailer (as it is for any file larger than the default 256 kB
            # sample); cases with sample_all=True let it reach the trailer
            skw = {} if case.get("sample_all") else {"sample": 20}
            back = dd.read_csv(path, blocksize=bs, **skw, **kw)
            got = F.compute(back)
    compare(got, want, f"read_csv(blocksize={bs}, skipfooter={nfoot}) of {nrows} rows + {nfoot} trailer lines ({size} bytes)", sig, meta=back._meta)


def skipfooter_cases(tier):
    for nrows in (6, 13) if tier == "quick" else (1, 6, 13, 40):
        for nfoot in (1, 2, 3):
            size = 4 + sum(len(f"{i},{(i * 7) % 5}\n") for i in range(nrows)) + 12 * nfoot
            for bs in sorted({None, 1000, size, size - 1, size // 2, size // 2 + 3, size // 3, 16, 25, 33}, key=lambda v: (v is None, v)):
                if bs is None or bs >= 8:
                    yield {"nrows": nrows, "skipfooter": nfoot, "blocksize": bs, "infer": False}
                    if bs is None or bs in (size, 33):
                        yield {"nrows": nrows, "skipfooter": nfoot, "blocksize": bs, "infer": True}
                        yield {"nrows": nrows, "skipfooter": nfoot, "blocksize": bs, "infer": False, "sample_all": True}


SUBCHECKS = [
    Sub(
        "roundtrip",
        check_roundtrip,
        strategy=lambda tier: roundtrip_case(),
        n={"quick": 1200, "thorough": 20000},
        nontrivial=_rows_text_short,
        classes=classes,
        doc="to_csv (directory / name_function / single_file) -> read_csv(blocksize) == pandas' own CSV round trip",
    ),
    Sub(
        "skipfooter",
        check_skipfooter,
        kind="enum",
        cases=skipfooter_cases,
        nontrivial=lambda c: c["blocksize"] is not None and c["blocksize"] < 60,
        classes=lambda c: [f"footer-{c['skipfooter']}", "one-block" if c["blocksize"] is None or c["blocksize"] >= 200 else "blocks"],
        exhaustive=True,
        doc="read_csv(skipfooter=1..3, engine='python') of 6/13 (thorough 1..40) rows + trailer lines under 8-10 block sizes (None, whole file, halves, thirds, 16/25/33 bytes) == pandas.read_csv",
    ),
    Sub(
        "read",
        check_read,
        strategy=lambda tier: read_case(),
        n={"quick": 3000, "thorough": 40000},
        nontrivial=_rows_text_short,
        classes=classes,
        doc="dd.read_csv(blocksize) == pandas.read_csv on generated CSV dialects",
    ),
]
