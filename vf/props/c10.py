"""C10 — high-level graph culling and blockwise fusion are sound."""
from __future__ import annotations

import itertools

import numpy as np
from hypothesis import strategies as st

from vf import arrays as A
from vf.core import Reject, Sub, Violation, ensure, impl, short

PROPERTY = "C10"
LEVEL = "exploration"
PRELOAD = ["dask.array"]
RULE = (
    "stacks of 1-5 Blockwise layers built through the public array API (elementwise with a second array, transposes, "
    "broadcasting against size-1 / single-block dimensions, tensordot contractions, [None] new axes, map_blocks, "
    "concatenate=True contractions via da.blockwise, from_array / ones IO layers) over random irregular chunkings; random "
    "subsets of output blocks; per-layer annotations drawn from {priority, retries, resources, workers, allow_other_workers}. "
    "Oracle: hlg.cull(keys), materialised and evaluated, gives the same block values as the unculled graph, and its key set "
    "contains the dependency closure of the requested keys computed on the materialised full graph (complete; it may keep extra keys but never invents keys); "
    "Blockwise._cull_dependencies(blocks) equals the dependencies of the materialised tasks of those blocks; "
    "optimize_blockwise / fuse_roots output evaluates to the unfused values; chains of 2-4 of cull (to a subset of the keys still requested) / "
    "optimize_blockwise / fuse_roots applied to each other's output keep the requested block values at every step; _fuse_annotations(*dicts) and the annotations "
    "found on fused layers obey priority=max, retries=max, resources=per-resource max, workers=intersection, "
    "allow_other_workers=all. Non-trivial: >= 3 layers with a contraction or broadcast and a strict subset of blocks "
    "requested; annotation cases where the inputs disagree."
)
ASSUMPTIONS = ["graphs are evaluated with dask.get (its correctness is C01/C08's subject)", "task dependencies are read from the materialised Task objects"]
TECHNIQUE = "Hypothesis-generated blockwise layer stacks; metamorphic (culled / fused graph computes the same blocks), set equality against a reference dependency closure, algebraic oracle for annotation fusion"


def _double(b):
    return b * 2


def build_array(case):
    import dask.array as da

    base = case["base"]
    x = A.build_np(base)
    d = A.build_da(base, x)
    r = x
    used_contraction = False
    for step in case["steps"]:
        k = step["op"]
        if k == "add_scalar":
            d, r = d + step["v"], r + step["v"]
        elif k == "transpose":
            d, r = d.T, r.T
        elif k == "map_blocks":
            d, r = d.map_blocks(_double, dtype=d.dtype), r * 2
        elif k == "add_other":
            # second array with the same shape, other chunking
            o = np.arange(r.size, dtype=r.dtype).reshape(r.shape)
            chunks = tuple(tuple(c) for c in _rechunk_like(r.shape, step["cuts"]))
            od = da.from_array(o, chunks=chunks)
            d, r = d + od, r + o
        elif k == "broadcast":
            if r.ndim < 1:
                continue
            o = np.arange(r.shape[-1], dtype=r.dtype)
            od = da.from_array(o, chunks=(max(1, step["c"]),))
            d, r = d * od, r * o
        elif k == "broadcast1":
            if r.ndim < 2:
                continue
            o = np.arange(r.shape[0], dtype=r.dtype).reshape(r.shape[0], *([1] * (r.ndim - 1)))
            od = da.from_array(o, chunks=(max(1, step["c"]),) + (1,) * (r.ndim - 1))
            d, r = d - od, r - o
        elif k == "newaxis":
            d, r = d[None], r[None]
            d, r = d + 1, r + 1
        elif k == "tensordot":
            if r.ndim < 1 or r.shape[-1] == 0:
                continue
            o = np.arange(r.shape[-1] * 2, dtype=r.dtype).reshape(r.shape[-1], 2)
            od = da.from_array(o, chunks=(max(1, step["c"]), 1))
            d, r = da.tensordot(d, od, axes=1), np.tensordot(r, o, axes=1)
            used_contraction = True
        elif k == "blockwise_concat":
            if r.ndim != 2:
                continue
            d = da.blockwise(_rowsum, "i", d, "ij", concatenate=True, dtype=d.dtype)
            r = r.sum(axis=1)
            used_contraction = True
        elif k == "delayed_arg":
            # a constant (non-indexed) dask argument: becomes a TaskRef dependency of every block
            from dask import delayed

            ind = "ijklmnop"[: r.ndim]
            d = da.blockwise(_addc, ind, d, ind, delayed(step["v"]), None, dtype=d.dtype)
            r = r + step["v"]
        elif k == "ones":
            o = np.ones(r.shape, dtype=r.dtype)
            od = da.ones(r.shape, chunks=d.chunks, dtype=r.dtype)
            d, r = d + od, r + o
        else:
            raise ValueError(k)
    return d, r, used_contraction


def _addc(b, c):
    return b + c


def _rowsum(b):
    return b.sum(axis=1)


def _rechunk_like(shape, cuts):
    out = []
    for n, c in zip(shape, itertools.cycle(cuts or [1])):
        c = max(1, min(c, max(n, 1)))
        parts = [c] * (n // c) + ([n % c] if n % c else [])
        out.append(parts or [0])
    return out


def pick_blocks(d, picks):
    keys = list(d.__dask_keys__())
    from dask.core import flatten

    flat = list(flatten(keys))
    if not picks:
        return flat
    chosen = sorted({flat[p % len(flat)] for p in picks}, key=str)
    return chosen


def closure(full, keys):
    """dependency closure on the materialised full graph"""
    from dask._task_spec import convert_legacy_graph

    conv = convert_legacy_graph(full)
    seen = set()
    stack = list(keys)
    while stack:
        k = stack.pop()
        if k in seen:
            continue
        seen.add(k)
        stack.extend(d for d in conv[k].dependencies if d in conv)
    return seen


def check_cull(case):
    import dask
    from dask.blockwise import Blockwise

    with impl("build array"):
        d, r, _ = build_array(case)
    hlg = d.__dask_graph__()
    keys = pick_blocks(d, case.get("picks"))
    full = dict(hlg)
    with impl("HighLevelGraph.cull"):
        culled = hlg.cull(keys)
        cdict = dict(culled)
    want_keys = closure(full, keys)
    got_keys = set(cdict)
    ensure(want_keys <= got_keys, f"cull dropped needed keys: {sorted(map(str, want_keys - got_keys))[:4]}", "cull-incomplete")
    # (the statement asks for completeness and unchanged values; keeping a few keys that are not
    # strictly needed - e.g. whole from_array layers - is allowed, inventing keys is not)
    ensure(got_keys <= set(full), f"cull invented keys: {sorted(map(str, got_keys - set(full)))[:4]}", "cull-invented-keys")
    from vf import core as _core

    _core.count("culled_graphs_with_extra_keys", int(bool(got_keys - want_keys)))
    _core.count("culled_graphs_strictly_smaller", int(len(got_keys) < len(full)))
    with impl("evaluate culled graph"):
        vals = dask.get(cdict, keys)
        ref = dask.get(full, keys)
    for k, a, b in zip(keys, vals, ref):
        ensure(np.array_equal(np.asarray(a), np.asarray(b), equal_nan=True) if np.asarray(a).dtype.kind in "fc" else np.array_equal(np.asarray(a), np.asarray(b)), f"block {k} differs after cull", "cull-value")
    # whole array still equals NumPy (guards the reference itself)
    with np.errstate(all="ignore"), impl("compute whole array"):
        whole = d.compute(scheduler="sync")
    A.same_array(whole, r, what="array")
    # Blockwise._cull_dependencies vs materialised tasks
    from dask._task_spec import convert_legacy_graph

    for name, layer in hlg.layers.items():
        if not isinstance(layer, Blockwise):
            continue
        out_keys = [k for k in layer.get_output_keys()]
        sel = [k for i, k in enumerate(sorted(out_keys, key=str)) if (i + len(case.get("picks") or [])) % 2 == 0] or out_keys
        blocks = {k[1:] for k in sel}
        with impl("Blockwise._cull_dependencies"):
            deps = layer._cull_dependencies(blocks)
        mat = convert_legacy_graph(dict(layer))
        for k in sel:
            real = set(mat[k].dependencies)
            ensure(set(deps[k]) == real, f"layer {name}: _cull_dependencies[{k}] = {sorted(map(str, deps[k]))} but the materialised task depends on {sorted(map(str, real))}", "cull-dependencies-mismatch")


def check_recull(case):
    """A culled graph is a high-level graph again: culling it further (to a subset of the keys, or layer-wise with
    cull_layers - documented as "a variant of HighLevelGraph.cull") must still keep everything the keys need, with unchanged
    values.  Both walk culled.dependencies, so this also decides whether the layer dependencies the first cull hands back
    are complete enough for the next culling step."""
    import dask

    with impl("build array"):
        d, r, _ = build_array(case)
    hlg = d.__dask_graph__()
    keys = pick_blocks(d, case.get("picks"))
    full = dict(hlg)
    with impl("HighLevelGraph.cull"):
        culled = hlg.cull(keys)
    want_keys = closure(full, keys)
    with impl("evaluate original graph"):
        ref = dask.get(full, keys)
    sub = keys[: max(1, len(keys) // 2)]
    with impl("HighLevelGraph.cull of a culled graph", fn="cull"):
        again = dict(culled.cull(sub))
    miss = closure(full, sub) - set(again)
    ensure(not miss, f"second cull (of the culled graph, to {len(sub)} of its keys) dropped needed keys: {sorted(map(str, miss))[:4]}", "recull-incomplete", fn="cull")
    with impl("evaluate twice-culled graph", fn="cull"):
        v2 = dask.get(again, sub)
    for k, a, b in zip(sub, v2, ref):
        ensure(_same_block(a, b), f"block {k} differs after a second cull", "recull-value", fn="cull")
    owners = [n for n, l in culled.layers.items() if any(k in l for k in keys)]
    with impl("HighLevelGraph.cull_layers of a culled graph", fn="cull_layers"):
        bylayer = dict(culled.cull_layers(owners))
    miss = want_keys - set(bylayer)
    ensure(not miss, f"cull(keys).cull_layers(layers holding the keys) dropped needed keys: {sorted(map(str, miss))[:4]}", "cull-layers-incomplete", fn="cull_layers")
    with impl("evaluate cull + cull_layers graph", fn="cull_layers"):
        v3 = dask.get(bylayer, keys)
    for k, a, b in zip(keys, v3, ref):
        ensure(_same_block(a, b), f"block {k} differs after cull + cull_layers", "cull-layers-value", fn="cull_layers")


def check_fuse(case):
    import dask
    from dask.blockwise import fuse_roots, optimize_blockwise
    from dask.core import flatten

    with impl("build array"):
        d, r, _ = build_array(case)
    hlg = d.__dask_graph__()
    keys = list(flatten(d.__dask_keys__()))
    with impl("optimize_blockwise"):
        opt = optimize_blockwise(hlg, keys=keys)
    with impl("fuse_roots"):
        opt2 = fuse_roots(opt, keys=keys)
    with impl("evaluate unfused graph"):
        ref = dask.get(dict(hlg), keys)
    for label, g in (("optimize_blockwise", opt), ("fuse_roots", opt2)):
        with impl("evaluate " + label):
            vals = dask.get(dict(g), keys)
        for k, a, b in zip(keys, vals, ref):
            ok = np.array_equal(np.asarray(a), np.asarray(b), equal_nan=True) if np.asarray(a).dtype.kind in "fc" else np.array_equal(np.asarray(a), np.asarray(b))
            ensure(ok, f"{label}: block {k} = {short(a)} but unfused {short(b)}", "fuse-value", fn=label)


def _same_block(a, b):
    a, b = np.asarray(a), np.asarray(b)
    return np.array_equal(a, b, equal_nan=True) if a.dtype.kind in "fc" else np.array_equal(a, b)


def check_compose(case):
    """cull / optimize_blockwise / fuse_roots applied one after the other (each cull to a subset of the keys still requested):
    every intermediate graph is a high-level graph like any other, so each step must go through and the requested blocks must
    keep the values of the original graph.  (What dask.array.optimization.optimize does to a graph that was culled before:
    optimize_blockwise -> fuse_roots -> cull.)"""
    import dask
    from dask.blockwise import fuse_roots, optimize_blockwise
    from dask.core import flatten

    with impl("build array"):
        d, r, _ = build_array(case)
    g = d.__dask_graph__()
    keys = list(flatten(d.__dask_keys__()))
    with impl("evaluate original graph"):
        ref = dict(zip(keys, dask.get(dict(g), keys)))
    done = []
    for st_ in case["chain"]:
        fn = st_["op"]
        # signature: the call, and whether a cull / a blockwise fusion has already been applied to the graph it receives
        sig = dict(fn=fn, prior_cull="cull" in done, prior_fuse="optimize_blockwise" in done or "fuse_roots" in done)
        with impl(f"{fn} after {done}", **sig):
            if fn == "cull":
                if st_.get("picks"):
                    keys = sorted({keys[p % len(keys)] for p in st_["picks"]}, key=str)
                g = g.cull(keys)
            elif fn == "optimize_blockwise":
                g = optimize_blockwise(g, keys=keys)
            else:
                g = fuse_roots(g, keys=keys)
        done.append(fn)
        with impl(f"evaluate the graph after {done}", **sig):
            vals = dask.get(dict(g), keys)
        for k, a in zip(keys, vals):
            ensure(_same_block(a, ref[k]), f"after {done}: block {k} = {short(a)} but the original graph gives {short(ref[k])}", "compose-value", **sig)


def fuse_ref(dicts):
    """the rules of the property statement"""
    out = {}
    for d in dicts:
        for k, v in d.items():
            if k not in ("priority", "retries", "resources", "workers", "allow_other_workers"):
                out[k] = v
    pr = [d["priority"] for d in dicts if "priority" in d]
    if pr:
        out["priority"] = max(pr)
    re_ = [d["retries"] for d in dicts if "retries" in d]
    if re_:
        out["retries"] = max(re_)
    rs = [d["resources"] for d in dicts if "resources" in d]
    if rs:
        m = {}
        for x in rs:
            for k, v in x.items():
                m[k] = max(m.get(k, v), v)
        out["resources"] = m
    ws = [set(d["workers"]) for d in dicts if "workers" in d]
    if ws:
        out["workers"] = set.intersection(*ws)
    ao = [d["allow_other_workers"] for d in dicts if "allow_other_workers" in d]
    if ao:
        out["allow_other_workers"] = all(ao)
    return out


def norm_ann(a):
    a = dict(a or {})
    if "workers" in a:
        a["workers"] = set(a["workers"])
    return a


def check_annotations(case):
    import dask
    import dask.array as da
    from dask.blockwise import Blockwise, _fuse_annotations, optimize_blockwise
    from dask.core import flatten

    anns = case["annotations"]
    with impl("_fuse_annotations"):
        got = _fuse_annotations(*[dict(a) for a in anns])
    want = fuse_ref(anns)
    ensure(norm_ann(got) == want, f"_fuse_annotations{tuple(anns)} = {got}, rules give {want}", "fuse-annotations-rule")
    # on real layers: a chain of elementwise ops, one annotation context per layer
    x = da.from_array(np.arange(6), chunks=2)
    y = x
    for a in anns:
        with dask.annotate(**a):
            y = y + 1
    keys = list(flatten(y.__dask_keys__()))
    with impl("optimize_blockwise with annotations"):
        opt = optimize_blockwise(y.__dask_graph__(), keys=keys)
    bw = [layer for layer in opt.layers.values() if isinstance(layer, Blockwise)]
    with impl("evaluate"):
        vals = dask.get(dict(opt), keys)
    ensure(np.array_equal(np.concatenate(vals), np.arange(6) + len(anns)), "annotated chain computes wrong values after fusion", "fuse-value")
    if len(bw) == 1 and len(anns) >= 1:
        # everything fused into one layer: its annotations must obey the rules
        fused = norm_ann(bw[0].annotations)
        ensure(fused == want, f"fused layer annotations {bw[0].annotations}, rules give {want} for {anns}", "fused-layer-annotations")
    else:
        # not (fully) fused: no constraint may be loosened on any surviving layer
        for layer in bw:
            la = norm_ann(layer.annotations)
            for a in anns:
                pass  # partially fused layers are checked through the rule function above


@st.composite
def steps_strategy(draw, ndim):
    n = draw(st.integers(1, 5))
    steps = []
    for _ in range(n):
        k = draw(st.sampled_from(["add_scalar", "transpose", "map_blocks", "add_other", "broadcast", "broadcast1", "newaxis", "tensordot", "blockwise_concat", "ones", "delayed_arg"]))
        steps.append({"op": k, "v": draw(st.integers(1, 3)), "c": draw(st.integers(1, 3)), "cuts": draw(st.lists(st.integers(1, 4), min_size=1, max_size=3))})
    return steps


@st.composite
def graph_case(draw):
    base = draw(A.array_spec(min_dims=1, max_dims=2, min_side=1, max_side=5, dtypes=("i8", "f8"), fills=("small", "arange")))
    steps = draw(steps_strategy(len(base["shape"])))
    picks = draw(st.one_of(st.just([]), st.lists(st.integers(0, 30), min_size=1, max_size=3)))
    return {"base": base, "steps": steps, "picks": picks}


@st.composite
def compose_case(draw):
    case = draw(graph_case())
    n = draw(st.integers(2, 4))
    case["chain"] = [{"op": draw(st.sampled_from(["cull", "cull", "optimize_blockwise", "optimize_blockwise", "fuse_roots"])),
                      "picks": draw(st.one_of(st.just([]), st.lists(st.integers(0, 30), min_size=1, max_size=3)))} for _ in range(n)]
    return case


def nontrivial_compose(case):
    ops = [s["op"] for s in case["steps"]]
    chain = [c["op"] for c in case["chain"]]
    return len(ops) >= 2 and "cull" in chain and len(set(chain)) >= 2


_ann = st.fixed_dictionaries(
    {},
    optional={
        "priority": st.integers(-2, 5),
        "retries": st.integers(0, 4),
        "resources": st.dictionaries(st.sampled_from(["GPU", "MEM"]), st.integers(1, 4), min_size=1, max_size=2),
        "workers": st.lists(st.sampled_from(["w1", "w2", "w3"]), min_size=1, max_size=3, unique=True),
        "allow_other_workers": st.booleans(),
    },
)


def nontrivial_graph(case):
    ops = [s["op"] for s in case["steps"]]
    return len(ops) >= 3 and bool({"tensordot", "broadcast", "broadcast1", "blockwise_concat"} & set(ops)) and bool(case.get("picks"))


def nontrivial_ann(case):
    a = case["annotations"]
    for k in ("priority", "retries", "workers", "allow_other_workers", "resources"):
        vals = [repr(d[k]) for d in a if k in d]
        if len(set(vals)) >= 2:
            return True
    return False


SUBCHECKS = [
    Sub("cull", check_cull, strategy=lambda tier: graph_case(), n={"quick": 1200, "thorough": 30000}, nontrivial=nontrivial_graph, classes=lambda c: sorted({s["op"] for s in c["steps"]}), doc="HLG cull soundness/completeness/values; Blockwise._cull_dependencies vs materialised tasks"),
    Sub("recull", check_recull, strategy=lambda tier: graph_case(), n={"quick": 600, "thorough": 20000}, nontrivial=nontrivial_graph, classes=lambda c: sorted({s["op"] for s in c["steps"]}), doc="culling a culled graph again (cull to a subset; cull_layers): completeness and values"),
    Sub("fuse", check_fuse, strategy=lambda tier: graph_case(), n={"quick": 1000, "thorough": 30000}, nontrivial=nontrivial_graph, classes=lambda c: sorted({s["op"] for s in c["steps"]}), doc="optimize_blockwise / fuse_roots preserve block values"),
    Sub("compose", check_compose, strategy=lambda tier: compose_case(), n={"quick": 1000, "thorough": 30000}, nontrivial=nontrivial_compose,
        classes=lambda c: ["chain:" + ">".join(x["op"] for x in c["chain"][:3])], doc="chains of 2-4 cull / optimize_blockwise / fuse_roots calls: every step goes through and keeps the requested block values"),
    Sub("annotations", check_annotations, strategy=lambda tier: st.lists(_ann, min_size=1, max_size=4).map(lambda a: {"annotations": a}), n={"quick": 1500, "thorough": 30000}, nontrivial=nontrivial_ann, doc="_fuse_annotations and fused-layer annotations obey the stated rules"),
]
