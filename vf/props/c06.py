"""C06 — dask.order.order is a total order consistent with dependencies."""
from __future__ import annotations

import itertools

from hypothesis import strategies as st

from vf.core import Reject, Sub, Violation, ensure, impl, time_limit
from vf.gen import dags
from vf.graphs import Build, RefEval, ext_key, node_key

PROPERTY = "C06"
LEVEL = "exploration"
RULE = (
    "enum: every DAG on n<=4 (quick) / n<=5 (thorough, plus a slice of n=6) nodes whose nodes are tasks, plain data, "
    "aliases or non-task lists of keys, each in legacy, task-spec and MIXED encoding (Task objects for calls, plain lists / "
    "aliases / data for the rest, as da.store builds), with every subset of task nodes additionally "
    "referencing a key OUTSIDE the graph (n<=3: all subsets; larger: three masks), and with return_stats on/off; cyclic "
    "variants (every single back edge / self-loop added to the n<=3 DAGs) must raise RuntimeError. hyp: random DAG shapes "
    "to 40 nodes with random key flavours and insertion order; graphs materialised from real array / bag / delayed "
    "collections. Oracle: set(result) == set(graph keys); priorities pairwise distinct; result[dep] < result[key] for every "
    "dependency edge inside the graph (edges from the spec; for collection graphs from each node's .dependencies). "
    "Non-trivial: >=2 non-task leaves each with >=2 dependencies, or a non-task root with >=2 dependents, or an external reference."
)
ASSUMPTIONS = [
    "dependency edges come from the case spec (reference evaluator), not from dask, except for graphs materialised from collections",
]
TECHNIQUE = "bounded exhaustive enumeration of small graphs + Hypothesis random graphs; validity predicate (total order consistent with dependencies)"
PRELOAD = ["dask.array", "dask.bag"]


def priorities(res):
    out = {}
    for k, v in res.items():
        out[k] = v.priority if hasattr(v, "priority") else v
    return out


def check_order(dsk, edges, keys, return_stats, sig):
    from dask.order import order

    with impl("order", **sig), time_limit(20, "order", **sig):
        res = order(dsk, return_stats=return_stats) if return_stats else order(dsk)
    p = priorities(res)
    ensure(set(p) == set(keys), f"order returned keys {sorted(map(str, p))}, graph has {sorted(map(str, keys))}", "wrong-key-set", **sig)
    vals = sorted(p.values())
    ensure(len(set(vals)) == len(vals), f"priorities not pairwise distinct: {p}", "duplicate-priority", **sig)
    for a, b in edges:  # a depends on b
        ensure(p[b] < p[a], f"{a!r} (priority {p[a]}) depends on {b!r} (priority {p[b]}): {p}", "dependency-not-before", **sig)
    for v in vals:
        ensure(isinstance(v, int) and not isinstance(v, bool), f"priority {v!r} is not an int", "priority-type", **sig)


def check(case):
    g = case["graph"]
    n = len(g["nodes"])
    sig = dict(style="mixed" if g.get("mixed") else g.get("style", "legacy"), cyclic=bool(case.get("back_edges")), external=bool(g.get("external")))
    b = Build(g)
    dsk = b.graph()
    order_ins = case.get("insertion")
    if order_ins:
        keys_list = [node_key(g, i) for i in order_ins]
        dsk = {k: dsk[k] for k in keys_list}
    ref = RefEval(g)
    if case.get("back_edges"):
        from dask.order import order

        try:
            with time_limit(20, "order on cyclic graph", **sig):
                res = order(dsk)
        except Violation:
            raise
        except Exception:  # noqa: BLE001
            # "rejected with an error": the statement does not fix the exception type
            # (order raises RuntimeError, or KeyError when a data root was pruned first)
            return
        raise Violation(f"cyclic graph accepted: {res}", "cyclic-accepted", **sig)
    keys = [node_key(g, i) for i in range(n)]
    edges = [(node_key(g, i), node_key(g, j)) for i in range(n) for j in ref.refs(i)]
    check_order(dsk, edges, keys, bool(case.get("return_stats")), sig)


def _kinds(case):
    g = case["graph"]
    ref = RefEval(g)
    n = len(g["nodes"])
    dependents = {i: set() for i in range(n)}
    for i in range(n):
        for j in ref.refs(i):
            dependents[j].add(i)
    nontask = lambda i: "call" not in g["nodes"][i]["body"]  # noqa: E731
    leaves = [i for i in range(n) if not dependents[i] and nontask(i) and len(ref.refs(i)) >= 2]
    roots = [i for i in range(n) if not ref.refs(i) and nontask(i) and len(dependents[i]) >= 2]
    return leaves, roots


def nontrivial(case):
    if case.get("back_edges"):
        return True
    leaves, roots = _kinds(case)
    return len(leaves) >= 2 or bool(roots) or bool(case["graph"].get("external"))


def classes(case):
    leaves, roots = _kinds(case) if not case.get("back_edges") else ([], [])
    if len(leaves) >= 2:
        yield ">=2-nontask-leaves"
    if roots:
        yield "nontask-root-multi-dependents"
    if case["graph"].get("external"):
        yield "external-ref"
    if case.get("back_edges"):
        yield "cyclic"
    yield "style-" + ("mixed" if case["graph"].get("mixed") else case["graph"].get("style", "legacy"))


def with_external(g, mask_nodes):
    import copy

    g = copy.deepcopy(g)
    for i in mask_nodes:
        body = g["nodes"][i]["body"]
        body.setdefault("list" if "list" in body else "args", []).append({"ext": "a"})
    if mask_nodes:
        g["external"] = {"a": "Lext"}
    return g


def enum_cases(tier):
    nmax = 4 if tier == "quick" else 5
    for n in range(1, nmax + 2):
        stride = 1
        if n == nmax + 1:
            stride = 29 if tier == "quick" else 211
        for gi, shape in enumerate(dags.all_dags(n)):
            if gi % stride:
                continue
            tasks = [i for i, s in enumerate(shape) if s["kind"] in ("task", "list")]
            for style in ("legacy", "taskspec", "mixed"):
                g = dags.dag_spec(shape, "taskspec" if style == "mixed" else style, ["str", "tuple", "mixed"][gi % 3])
                if style == "mixed":
                    # Task objects + plain lists/aliases (+ plain data for every other graph)
                    g = dags.mixed(g, ("list", "ref") if gi % 2 else ("list", "ref", "lit"))
                    if not any(n.get("style") == "legacy" for n in g["nodes"]):
                        continue
                yield {"graph": g, "return_stats": bool(gi % 2)}
                if not tasks:
                    continue
                if n <= 3:
                    masks = [c for r in range(1, len(tasks) + 1) for c in itertools.combinations(tasks, r)]
                else:
                    masks = {(tasks[0],), (tasks[-1],), tuple(tasks), tuple(tasks[-2:])}
                for m in masks:
                    yield {"graph": with_external(g, m), "return_stats": False}
    # cyclic variants of the n<=3 DAGs: add one back edge (or self loop) to a task/list node
    for n in range(1, 4):
        for shape in dags.all_dags(n):
            for i in range(n):
                if shape[i]["kind"] not in ("task", "list"):
                    continue
                for j in range(i, n):
                    # j must (transitively) depend on i for the extra edge i -> j to close a cycle
                    if j != i and not _reaches(shape, j, i):
                        continue
                    for style in ("legacy", "taskspec"):
                        g = dags.dag_spec(shape, style, "str")
                        body = g["nodes"][i]["body"]
                        key = "args" if "call" in body else "list"
                        body[key] = list(body.get(key, [])) + [{"ref": j}]
                        yield {"graph": g, "back_edges": [[i, j]]}


def enum_storelike(tier):
    """Layered graphs as da.store / compute-many build them: d plain-data nodes and t argument-less tasks at the bottom,
    2-3 non-task lists each collecting a non-empty subset of the data nodes (and all tasks or none), optionally one more
    list on top collecting those lists.  order() removes such alias leaves in rounds and re-assigns the priorities of
    data roots that lose their last dependent: every membership pattern is enumerated."""
    for d, t, nl in itertools.product((1, 2, 3), (0, 1, 2), (2, 3)):
        if nl == 3 and d == 3 and tier == "quick":
            continue
        data = list(range(d))
        tasks = list(range(d, d + t))
        members = []
        for r in range(1, d + 1):
            for c in itertools.combinations(data, r):
                members.append(list(c))
                if t:
                    members.append(list(c) + tasks)
        gi = 0
        for combo in itertools.product(members, repeat=nl):
            for top in (False, True):
                gi += 1
                shape = [{"kind": "data", "deps": []} for _ in data] + [{"kind": "task", "deps": []} for _ in tasks]
                shape += [{"kind": "list", "deps": m} for m in combo]
                if top:
                    shape.append({"kind": "list", "deps": list(range(d + t, d + t + nl))})
                for style in ("legacy", "taskspec", "mixed"):
                    g = dags.dag_spec(shape, "taskspec" if style == "mixed" else style, ["str", "tuple", "mixed"][gi % 3])
                    if style == "mixed":
                        g = dags.mixed(g, ("list", "ref", "lit") if gi % 2 else ("list", "ref"))
                    yield {"graph": g, "return_stats": bool(gi % 2)}


def _reaches(shape, a, b):
    """does node a transitively depend on node b?"""
    stack = list(shape[a]["deps"])
    seen = set()
    while stack:
        x = stack.pop()
        if x == b:
            return True
        if x in seen:
            continue
        seen.add(x)
        stack.extend(shape[x]["deps"])
    return False


@st.composite
def random_case(draw):
    g = draw(dags.shape_graph(min_nodes=3, max_nodes=40))
    n = len(g["nodes"])
    if draw(st.integers(0, 2)) == 0:
        g = dags.mixed(g, ("list", "ref") if draw(st.booleans()) else ("list", "ref", "lit"))
    case = {"graph": g, "return_stats": draw(st.booleans()), "insertion": list(draw(st.permutations(list(range(n)))))}
    if draw(st.integers(0, 3)) == 0:
        tasks = [i for i in range(n) if "call" in g["nodes"][i]["body"] or "list" in g["nodes"][i]["body"]]
        if tasks:
            m = draw(st.lists(st.sampled_from(tasks), min_size=1, max_size=3, unique=True))
            case["graph"] = with_external(g, m)
    return case


# ---- graphs materialised from real collections ------------------------------


def collection_graph(spec):
    import numpy as np

    kind = spec["kind"]
    if kind == "array-reduction":
        import dask.array as da

        x = da.from_array(np.arange(spec["n"] * spec["m"]).reshape(spec["n"], spec["m"]), chunks=(spec["cn"], spec["cm"]))
        y = (x + 1).sum(axis=spec["axis"], split_every=spec["split_every"])
        return dict(y.__dask_graph__())
    if kind == "array-rechunk":
        import dask.array as da

        x = da.ones((spec["n"], spec["m"]), chunks=(spec["cn"], spec["cm"]))
        y = x.rechunk((spec["cm"], spec["cn"])).T @ x if spec["n"] == spec["m"] else x.rechunk((spec["cm"], spec["cn"])) * 2
        return dict(y.__dask_graph__())
    if kind == "array-store-like":
        import dask.array as da

        x = da.ones((spec["n"],), chunks=(spec["cn"],))
        dsk = dict((x + 1).__dask_graph__())
        keys = [k for k in dsk if isinstance(k, tuple) and k[0].startswith("add")]
        # alias-to-many leaf nodes, as da.store builds them
        dsk["store-all"] = list(keys)
        dsk["store-all-2"] = list(reversed(keys))
        return dsk
    if kind == "bag-fold":
        import dask.bag as db

        b = db.from_sequence(list(range(spec["n"])), npartitions=spec["cn"])
        r = b.map(_inc).fold(_add, split_every=spec["split_every"])
        return dict(r.__dask_graph__())
    raise ValueError(kind)


def _inc(x):
    return x + 1


def _add(a, b):
    return a + b


def check_collection(spec):
    from dask._task_spec import convert_legacy_graph

    with impl("build collection graph"):
        dsk = collection_graph(spec)
    conv = convert_legacy_graph(dsk)
    keys = list(dsk)
    edges = [(k, d) for k, node in conv.items() for d in node.dependencies if d in conv]
    sig = dict(style="collection-" + spec["kind"], cyclic=False, external=False)
    check_order(dsk, edges, [k for k in keys if k in conv], spec.get("return_stats", False), sig)


@st.composite
def collection_case(draw):
    kind = draw(st.sampled_from(["array-reduction", "array-rechunk", "array-store-like", "bag-fold"]))
    n = draw(st.integers(2, 12))
    m = draw(st.integers(2, 12))
    return {
        "kind": kind,
        "n": n,
        "m": m,
        "cn": draw(st.integers(1, n)),
        "cm": draw(st.integers(1, m)),
        "axis": draw(st.sampled_from([0, 1, None])),
        "split_every": draw(st.sampled_from([2, 3, 4])),
        "return_stats": draw(st.booleans()),
    }


SUBCHECKS = [
    Sub(
        "enum",
        check,
        kind="enum",
        cases=enum_cases,
        nontrivial=nontrivial,
        classes=classes,
        exhaustive=True,
        budget_s={"quick": 70, "thorough": 1200},
        doc="all small DAGs x encodings x external-reference masks x return_stats; cyclic variants",
    ),
    Sub(
        "enum-storelike",
        check,
        kind="enum",
        cases=enum_storelike,
        nontrivial=lambda case: len(case["graph"]["nodes"]) >= 6,
        classes=classes,
        exhaustive=True,
        budget_s={"quick": 60, "thorough": 900},
        doc="layered store-like graphs: 1-3 data nodes + 0-2 tasks under 2-3 alias lists (every membership pattern) with and without a collecting list on top, three encodings",
    ),
    Sub(
        "random",
        check,
        strategy=lambda tier: random_case(),
        n={"quick": 1500, "thorough": 40000},
        nontrivial=nontrivial,
        classes=classes,
        doc="random DAG shapes to 40 nodes, random key flavours and insertion order, optional external references",
    ),
    Sub(
        "collections",
        check_collection,
        strategy=lambda tier: collection_case(),
        n={"quick": 150, "thorough": 3000},
        nontrivial=lambda spec: spec["kind"] in ("array-store-like", "array-reduction"),
        classes=lambda spec: [spec["kind"]],
        doc="graphs materialised from array reductions / rechunk / store-like alias leaves / bag folds",
    ),
]
