"""Shared helpers for C20 (indexing), C21 (item assignment) and C22 (reductions).

Index spec: a list of JSON items, one per index element (in order):

    {"k": "slice", "v": [start, stop, step]}          start/stop/step int or None
    {"k": "int", "v": i, "np": bool}                   Python int / np.int64
    {"k": "none"}                                      np.newaxis
    {"k": "ellipsis"}
    {"k": "ints", "v": [..], "as": "list"|"np"|"da", "chunks": [..]}     1-d integer indexer
    {"k": "int0d", "v": i, "as": "da"|"np"}            0-d integer array used as an integer
    {"k": "bools", "v": [..], "as": "list"|"np"|"da", "chunks": [..]}    1-d mask for one axis
    {"k": "mask", "seed": s, "p": percent, "as": "np"|"da", "chunks": [[..], ..]}   full-shape mask

``build_index(items, shape)`` -> (index for NumPy, index for dask).  A single
item with ``bare=True`` is passed without the enclosing tuple.
"""
from __future__ import annotations

import numpy as np
from hypothesis import strategies as st

from vf import arrays as A

FANCY = ("ints", "bools", "mask", "int0d")


# --------------------------------------------------------------------------
# building live indices


def mask_values(item, shape):
    rng = np.random.default_rng(item.get("seed", 0))
    m = rng.integers(0, 100, size=tuple(shape)) < item.get("p", 50)
    return m


def _da(x, chunks):
    import dask.array as da

    return da.from_array(x, chunks=tuple(tuple(c) for c in chunks))


def build_item(item, shape):
    """-> (numpy index element, dask index element)"""
    k = item["k"]
    if k == "slice":
        s = slice(*item["v"])
        return s, s
    if k == "int":
        v = np.int64(item["v"]) if item.get("np") else int(item["v"])
        return v, v
    if k == "none":
        return None, None
    if k == "ellipsis":
        return Ellipsis, Ellipsis
    if k == "ints":
        arr = np.asarray(item["v"], dtype=np.int64)
        if item["as"] == "list":
            return list(item["v"]), list(item["v"])
        if item["as"] == "np":
            return arr, arr
        return arr, _da(arr, [item["chunks"]])
    if k == "int0d":
        arr = np.asarray(item["v"], dtype=np.int64)
        if item["as"] == "np":
            return arr, arr
        import dask.array as da

        return arr, da.from_array(arr, chunks=())
    if k == "bools":
        arr = np.asarray(item["v"], dtype=bool)
        if item["as"] == "list":
            return list(map(bool, item["v"])), list(map(bool, item["v"]))
        if item["as"] == "np":
            return arr, arr
        return arr, _da(arr, [item["chunks"]])
    if k == "mask":
        m = mask_values(item, shape)
        if item["as"] == "np":
            return m, m
        return m, _da(m, item["chunks"])
    raise ValueError(k)


def build_index(items, shape, bare=False):
    pairs = [build_item(it, shape) for it in items]
    n = tuple(p[0] for p in pairs)
    d = tuple(p[1] for p in pairs)
    if bare and len(items) == 1:
        return n[0], d[0]
    return n, d


# --------------------------------------------------------------------------
# structural facts about an index spec


def item_axes(items, ndim):
    """For each item the list of array axes it consumes (None items: [])."""
    consuming = sum(1 for it in items if it["k"] not in ("none", "ellipsis", "mask")) + sum(
        ndim for it in items if it["k"] == "mask"
    )
    out = []
    ax = 0
    for it in items:
        k = it["k"]
        if k == "none":
            out.append([])
        elif k == "ellipsis":
            w = max(ndim - consuming, 0)
            out.append(list(range(ax, ax + w)))
            ax += w
        elif k == "mask":
            out.append(list(range(ax, ax + ndim)))
            ax += ndim
        else:
            out.append([ax])
            ax += 1
    return out


def neg_step_start_below_minus_n(items, shape):
    """A slice with negative step whose explicit start is < -n for its axis
    (NumPy: selects nothing unless stop is also beyond; see F-C20)."""
    for it, axes in zip(items, item_axes(items, len(shape))):
        if it["k"] == "slice" and axes and axes[0] < len(shape):
            a, b, s = it["v"]
            if s is not None and s < 0 and a is not None and a < -shape[axes[0]]:
                return True
    return False


def advanced_nonadjacent(items):
    """NumPy's transposition rule applies: an array index and an integer index
    (both 'advanced' for NumPy once an array is present) are separated by a
    slice, None or Ellipsis, so NumPy moves the indexed dimension to the front."""
    adv = [i for i, it in enumerate(items) if it["k"] in ("ints", "bools", "int", "int0d", "mask")]
    # (a 0-d integer array behaves like an integer for NumPy: it does not make the index "advanced")
    has_array = any(it["k"] in ("ints", "bools", "mask") for it in items)
    if not has_array or len(adv) < 2:
        return False
    return adv[-1] - adv[0] + 1 != len(adv)


def none_with_dask_indexer(items):
    return any(it["k"] == "none" for it in items) and any(it["k"] in FANCY and it.get("as") == "da" for it in items)


def none_with_np_indexer(items):
    """None next to a list / NumPy integer or boolean 1-d indexer (slice_with_newaxes rewrites the take graph)."""
    return any(it["k"] == "none" for it in items) and any(it["k"] in ("ints", "bools") and it["as"] != "da" for it in items)


def fancy_kind(items):
    for it in items:
        if it["k"] in FANCY:
            return it["k"] + "-" + it["as"]
    return "none"


def boundaries(chunks_axis):
    """Interior chunk boundaries of one axis."""
    out = set()
    acc = 0
    for c in chunks_axis[:-1]:
        acc += c
        out.add(acc)
    out.discard(0)
    out.discard(sum(chunks_axis))
    return out


def chunk_ids(positions, chunks_axis):
    edges = np.cumsum(chunks_axis)
    return [int(np.searchsorted(edges, p, side="right")) for p in positions]


def index_nontrivial(items, shape, chunks):
    """NT rule of C20/C21: a slice boundary coincides with an interior chunk
    boundary (non-empty selection), or an integer indexer touches >= 2 chunks
    out of chunk order."""
    for it, axes in zip(items, item_axes(items, len(shape))):
        if not axes or axes[0] >= len(shape):
            continue
        ax = axes[0]
        n = shape[ax]
        B = boundaries(chunks[ax])
        if it["k"] == "slice":
            start, stop, step = slice(*it["v"]).indices(n)
            if len(range(start, stop, step)) == 0:
                continue
            if step > 0 and (start in B or stop in B):
                return True
            if step < 0 and ((start + 1) in B or (stop + 1) in B):
                return True
        elif it["k"] == "ints" and n > 0:
            pos = [v + n if v < 0 else v for v in it["v"]]
            if any(p < 0 or p >= n for p in pos):
                continue
            ids = chunk_ids(pos, chunks[ax])
            if len(set(ids)) >= 2 and ids != sorted(ids):
                return True
    return False


def no_multiblock_len1(arr):
    """Collapse the chunking of length-1 axes to a single block.  A length-1 axis split into several blocks needs an
    explicit zero-size chunk ((0, 1) / (1, 0)); chunk unification mistakes such an axis for a broadcast axis.  That
    root cause is C19's listed finding `broadcast-multiblock-len1-axis`; it resurfaces wherever indexing/assignment
    go through elemwise/blockwise (x[dask_mask], x[mask] = v), so this input class is left to C19."""
    arr = dict(arr)
    arr["chunks"] = [[1] if n == 1 else list(c) for n, c in zip(arr["shape"], arr["chunks"])]
    return arr


# --------------------------------------------------------------------------
# strategies (specs only)


_PCT = st.sampled_from(range(100))


def chance(draw, pct):
    """True with probability ~pct %.  sampled_from is uniform (st.integers / st.floats are biased towards their end
    points), and the *last* pct values mean True so that Hypothesis' zero-extended (simplest) completions take the common
    branch, not the rare one."""
    return draw(_PCT) >= 100 - pct


@st.composite
def array_st(draw, zero_chunk_pct=10, **kw):
    """Array spec whose chunking has explicit zero-size chunks in ~zero_chunk_pct % of the cases (a separate stratum:
    ordinary chunkings must dominate), never on a length-1 axis (see no_multiblock_len1)."""
    arr = draw(A.array_spec(allow_zero_chunks=False, **kw))
    if arr["shape"] and chance(draw, zero_chunk_pct):
        chunks = [list(c) for c in arr["chunks"]]
        axes = draw(st.lists(st.integers(0, len(chunks) - 1), min_size=1, max_size=2))
        for ax in axes:
            if arr["shape"][ax] < 2:
                continue  # (0, 0) on an empty axis / (0, 1) on a length-1 axis: doubly degenerate, left out
            pos = draw(st.integers(0, len(chunks[ax])))
            chunks[ax] = chunks[ax][:pos] + [0] + chunks[ax][pos:]
        arr["chunks"] = chunks
    return no_multiblock_len1(arr)


def slice_item_st(n, wide=True):
    lim = n + 2
    bound = st.one_of(st.none(), st.integers(-lim, lim))
    steps = [None, 1, -1, 2, -2, 3, -3]
    if wide:
        steps += [n + 1, -(n + 1)]
    return st.builds(lambda a, b, s: {"k": "slice", "v": [a, b, s]}, bound, bound, st.sampled_from(steps))


@st.composite
def int_item_st(draw, n, oob=0.05):
    if n == 0 or chance(draw, round(oob * 100)):
        v = draw(st.sampled_from([n, -n - 1, n + 1]))
    else:
        v = draw(st.integers(-n, n - 1))
    return {"k": "int", "v": v, "np": chance(draw, 20)}


@st.composite
def ints_item_st(draw, n, kinds=("list", "np", "da"), oob=0.04, max_extra=2):
    """1-d integer indexer for an axis of length n: sorted / reversed / random /
    duplicates / negative / empty."""
    style = draw(st.sampled_from(["random", "random", "sorted", "reversed", "dups", "same", "empty", "perm", "arange"]))
    if n == 0:
        style = "empty"
    if style == "empty":
        v = []
    elif style == "perm":
        v = list(draw(st.permutations(list(range(n)))))
    elif style == "arange":
        v = list(range(n))
    else:
        size = draw(st.integers(1, n + max_extra))
        v = draw(st.lists(st.integers(0, n - 1), min_size=size, max_size=size))
        if style == "sorted":
            v = sorted(v)
        elif style == "reversed":
            v = sorted(v, reverse=True)
        elif style == "same":
            v = [v[0]] * len(v)
        elif style == "dups":
            v = v + v[: max(1, len(v) // 2)]
    # negative spellings of some entries
    if v and draw(st.booleans()):
        flips = draw(st.lists(st.booleans(), min_size=len(v), max_size=len(v)))
        v = [x - n if f else x for x, f in zip(v, flips)]
    if v and n > 0 and chance(draw, round(oob * 100)):
        pos = draw(st.integers(0, len(v) - 1))
        v[pos] = draw(st.sampled_from([n, -n - 1]))
    as_ = draw(st.sampled_from(list(kinds)))
    item = {"k": "ints", "v": [int(x) for x in v], "as": as_}
    if as_ == "da":
        item["chunks"] = draw(A.chunks_for_axis(len(v)))
    return item


@st.composite
def bools_item_st(draw, n, kinds=("list", "np", "da"), chunks_like=None):
    style = draw(st.sampled_from(["random", "random", "all", "none", "one"]))
    if style == "all":
        v = [True] * n
    elif style == "none":
        v = [False] * n
    elif style == "one" and n:
        j = draw(st.integers(0, n - 1))
        v = [i == j for i in range(n)]
    else:
        v = draw(st.lists(st.booleans(), min_size=n, max_size=n))
    as_ = draw(st.sampled_from(list(kinds)))
    if as_ == "list" and n == 0:
        as_ = "np"  # [] is an (empty) integer index for NumPy, not a mask
    item = {"k": "bools", "v": v, "as": as_}
    if as_ == "da":
        if chunks_like is not None and draw(st.booleans()):
            item["chunks"] = list(chunks_like)
        else:
            item["chunks"] = draw(A.chunks_for_axis(n))
    return item


@st.composite
def mask_item_st(draw, shape, chunks, kinds=("np", "da")):
    as_ = draw(st.sampled_from(list(kinds)))
    item = {"k": "mask", "seed": draw(st.integers(0, 999)), "p": draw(st.sampled_from([0, 20, 50, 50, 80, 100])), "as": as_}
    if as_ == "da":
        if draw(st.booleans()):
            item["chunks"] = [list(c) for c in chunks]
        else:
            item["chunks"] = draw(A.chunks_for_shape(shape))
    return item


def add_structure(draw, items, allow_none=True, allow_ellipsis=True):
    """Replace a run of full slices by Ellipsis, or drop trailing full slices; insert None items.  Every remaining
    item keeps the axis it was generated for."""
    full = {"k": "slice", "v": [None, None, None]}
    items = list(items)
    if allow_ellipsis and chance(draw, 25):
        # choose a (possibly empty) run of full slices to replace; the items after it stay aligned to the last axes
        pos = draw(st.integers(0, len(items)))
        end = pos
        while end < len(items) and items[end] == full and draw(st.booleans()):
            end += 1
        items = items[:pos] + [{"k": "ellipsis"}] + items[end:]
    elif draw(st.booleans()):
        while items and items[-1] == full:
            items.pop()
    if allow_none:
        k = draw(st.sampled_from([0, 0, 0, 1, 1, 2]))
        for _ in range(k):
            pos = draw(st.integers(0, len(items)))
            items.insert(pos, {"k": "none"})
    return items
