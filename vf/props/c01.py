"""C01 — local schedulers compute exactly the values the graph denotes."""
from __future__ import annotations

from hypothesis import strategies as st

from vf.core import Sub, Violation, ensure, short
from vf.gen import dags
from vf.props import _schedcommon as sc

PROPERTY = "C01"
LEVEL = "exploration"
RULE = (
    "enum: every DAG (node kinds task/data/alias/non-task list) on n<=4 nodes (quick; n<=5 thorough) plus a slice of "
    "the next size, x legacy and task-spec encodings x every requested key / key subset / nested request x "
    "{get_sync, get_async on the controlled executor with ALL completion interleavings for a (workers,chunksize) grid}; "
    "hyp: random rich graphs (nested calls, lists, tuples, dict idiom, kwargs, quoted values, key-like literals, "
    "str/tuple/int keys) x random nested requests x {sync, controlled with random choice lists, threaded.get with "
    "num_workers 1..8 and micro-sleeps, ThreadPoolExecutor as pool=}; serial: multiprocessing.get on spawn pools "
    "(1-3 workers, chunksize 1/6/-1, optimize_graph on/off). Oracle: reference evaluator on the spec; term functions "
    "make value equality structural. Non-trivial: >=2 needed callable tasks and a fan-in or fan-out in the needed graph "
    "(for controlled runs additionally workers>=2)."
)
ASSUMPTIONS = [
    "reference evaluator in vf/graphs.py (written from docs/source/spec.rst) defines the denoted value",
    "controlled executor replaces dask.local.queue_get in the harness process only; it changes no scheduler decision",
    "real pools (threads/processes) are sampled OS schedules; the controlled exploration is the deciding part for interleavings",
]
TECHNIQUE = "bounded exhaustive enumeration of DAGs x requests x all completion interleavings (controlled executor) + Hypothesis-generated rich graphs, differential against a reference graph evaluator"


def predicate(case, ref, out):
    if out.deadlock:
        raise Violation(f"scheduler deadlocked: {out.raised}", "deadlock", sched=case["sched"]["kind"])
    if out.raised is not None:
        raise Violation(
            f"scheduler raised {type(out.raised).__name__}: {out.raised}",
            "raises:" + type(out.raised).__name__,
            sched=case["sched"]["kind"],
        )
    want = ref.pack(case["request"])
    ensure(
        _same(out.value, want),
        f"result {short(out.value)} != reference {short(want)}",
        "wrong-value",
        sched=case["sched"]["kind"],
    )


def _same(a, b):
    # exact structural equality including container types
    if type(a) is not type(b):
        return False
    if isinstance(a, (list, tuple)):
        return len(a) == len(b) and all(_same(x, y) for x, y in zip(a, b))
    if isinstance(a, dict):
        return a.keys() == b.keys() and all(_same(a[k], b[k]) for k in a)
    return a == b


def check(case):
    sc.for_each_schedule(case, predicate)


def nontrivial(case):
    cl = sc.dags_shape_classes(case["graph"], case["request"])
    if len(sc.needed_callables(case)) < 2:
        return False
    if not ({"fan-in", "fan-out", "diamond"} & set(cl)):
        return False
    s = case["sched"]
    if s["kind"] != "sync" and s.get("workers", 1) < 2:
        return False
    return True


@st.composite
def proc_case(draw):
    g = draw(dags.rich_graph(max_nodes=7)) if draw(st.booleans()) else draw(dags.shape_graph(max_nodes=9))
    req = draw(dags.request_for(len(g["nodes"])))
    return {
        "graph": g,
        "request": req,
        "sched": {
            "kind": "processes",
            "workers": draw(st.integers(1, 3)),
            "chunksize": draw(st.sampled_from([1, 6, -1])),
            "optimize_graph": draw(st.booleans()),
        },
    }


SUBCHECKS = [
    Sub(
        "enum",
        check,
        kind="enum",
        cases=lambda tier: sc.enum_cases(tier),
        nontrivial=nontrivial,
        classes=sc.structural_classes,
        exhaustive=True,
        budget_s={"quick": 70, "thorough": 1500},
        doc="all small DAGs x requests x {sync, controlled: all interleavings}",
    ),
    Sub(
        "random",
        check,
        strategy=lambda tier: sc.random_case(),
        n={"quick": 1600, "thorough": 40000},
        nontrivial=nontrivial,
        classes=sc.structural_classes,
        doc="rich random graphs x nested requests x sync/controlled/threads/ThreadPoolExecutor",
    ),
    Sub(
        "processes",
        check,
        strategy=lambda tier: proc_case(),
        n={"quick": 40, "thorough": 600},
        nontrivial=nontrivial,
        classes=sc.structural_classes,
        serial=True,
        budget_s={"quick": 60, "thorough": 900},
        doc="multiprocessing.get on harness-owned spawn pools",
    ),
]


def TEARDOWN():
    from vf.schedengine import shutdown_pools

    shutdown_pools()
