"""C11 — task nodes that compare equal (or share a token) compute equal values."""
from __future__ import annotations

import copy

from hypothesis import strategies as st

from vf.core import Sub, Violation, ensure, impl, short
from vf.gen import dags
from vf.graphs import Build

PROPERTY = "C11"
LEVEL = "exploration"
RULE = (
    "pairs of task-graph nodes (Task with args/kwargs, nested List/Tuple/Set/Dict containers, namedtuples, Alias, DataNode) "
    "built from one generated expression and a structural mutation of it: permute the elements of a List/Tuple, swap the "
    "values of two Dict keys, swap a Dict key with its value, change a kwarg value, change the function, point a reference "
    "at another key, re-nest a container, change a literal, or no mutation; plus fully independent pairs. Oracle: whenever "
    "dask claims the nodes equal (a == b, or tokenize(a) == tokenize(b), or equal hashes together with ==), evaluating both "
    "on the same 3 dependency valuations (distinct values per key) must give equal results (injective term functions). "
    "enum: all permutations / value swaps of small containers. Non-trivial: the mutation changes the value the node "
    "computes; measured separately: number of pairs for which dask claimed equality (must be > 0)."
)
ASSUMPTIONS = [
    "term functions are injective, so different argument routing gives different values",
    "only the implication 'claimed equal => same values' is checked (distinct nodes may get distinct tokens freely)",
]
TECHNIQUE = "metamorphic testing: structural mutations of generated task nodes; implication equal/token-equal => equal evaluation on generated dependency values"

NKEYS = 3
KEYS = ["k0", "k1", "k2"]


def _spec(expr):
    # a 1-node-per-key context: refs 0..2 are keys k0..k2
    return {"style": "taskspec", "nodes": [{"k": k, "body": {"lit": 0}} for k in KEYS] + [{"k": "top", "body": expr}]}


def build_node(expr, keyed):
    b = Build(_spec(expr))
    if keyed:
        return b.tasknode("top", expr, top=None)
    return b.targ(expr)


def paths(e, prefix=()):
    """All sub-expression paths."""
    out = [prefix]
    for k in ("args", "list", "tuple", "set", "nt"):
        for i, x in enumerate(e.get(k) or ()):
            out += paths(x, prefix + ((k, i),))
    for k in ("dict", "rawdict"):
        for i, (_, v) in enumerate(e.get(k) or ()):
            out += paths(v, prefix + ((k, i),))
    for name, v in sorted((e.get("kwargs") or {}).items()):
        out += paths(v, prefix + (("kwargs", name),))
    return out


def get_at(e, path):
    for k, i in path:
        if k in ("dict", "rawdict"):
            e = e[k][i][1]
        else:
            e = e[k][i]
    return e


MUTS = ["permute", "dict-swap-values", "dict-swap-key-value", "dict-key-type", "dict-key-type", "kwarg-value", "fn", "ref", "nest", "literal", "drop"]


def mutate(expr, name, picks):
    e = copy.deepcopy(expr)
    it = iter(picks)

    def pick(n):
        try:
            return next(it) % max(n, 1)
        except StopIteration:
            return 0

    ps = paths(e)
    if name == "permute":
        cands = [p for p in ps if any(k in get_at(e, p) and len(get_at(e, p)[k]) >= 2 for k in ("list", "tuple", "args"))]
        if not cands:
            return None
        t = get_at(e, cands[pick(len(cands))])
        k = next(k for k in ("list", "tuple", "args") if k in t and len(t[k]) >= 2)
        i = pick(len(t[k]) - 1)
        if t[k][i] == t[k][i + 1]:
            return None
        t[k][i], t[k][i + 1] = t[k][i + 1], t[k][i]
        return e
    if name in ("dict-swap-values", "dict-swap-key-value"):
        cands = [p for p in ps if any(k in get_at(e, p) and len(get_at(e, p)[k]) >= (2 if name == "dict-swap-values" else 1) for k in ("dict", "rawdict"))]
        if not cands:
            return None
        t = get_at(e, cands[pick(len(cands))])
        k = "dict" if "dict" in t else "rawdict"
        if name == "dict-swap-values":
            i = pick(len(t[k]) - 1)
            if t[k][i][1] == t[k][i + 1][1]:
                return None
            t[k][i][1], t[k][i + 1][1] = t[k][i + 1][1], t[k][i][1]
        else:
            i = pick(len(t[k]))
            key, val = t[k][i]
            if "lit" not in val or not isinstance(val["lit"], (int, str)) or isinstance(val["lit"], bool) or val["lit"] == key:
                return None
            if any(kk == val["lit"] for kk, _ in t[k]):
                return None
            t[k][i] = [val["lit"], {"lit": key}]
        return e
    if name == "dict-key-type":
        # a key of another type that prints the same: 1 <-> "1"
        cands = [p for p in ps if any(k in get_at(e, p) and get_at(e, p)[k] for k in ("dict", "rawdict"))]
        if not cands:
            return None
        t = get_at(e, cands[pick(len(cands))])
        k = "dict" if "dict" in t else "rawdict"
        i = pick(len(t[k]))
        key = t[k][i][0]
        new = str(key) if isinstance(key, int) else (int(key) if isinstance(key, str) and key.isdigit() else None)
        if new is None or any(kk == new for kk, _ in t[k]):
            return None
        t[k][i][0] = new
        return e
    if name == "kwarg-value":
        cands = [p for p in ps if get_at(e, p).get("kwargs")]
        if not cands:
            return None
        t = get_at(e, cands[pick(len(cands))])
        n = sorted(t["kwargs"])[pick(len(t["kwargs"]))]
        t["kwargs"][n] = {"list": [t["kwargs"][n]]}
        return e
    if name == "fn":
        cands = [p for p in ps if "call" in get_at(e, p)]
        if not cands:
            return None
        t = get_at(e, cands[pick(len(cands))])
        t["call"] = dags.FN[(dags.FN.index(t["call"]) + 1) % len(dags.FN)]
        return e
    if name == "ref":
        cands = [p for p in ps if "ref" in get_at(e, p)]
        if not cands:
            return None
        t = get_at(e, cands[pick(len(cands))])
        t["ref"] = (t["ref"] + 1) % NKEYS
        return e
    if name == "nest":
        cands = [p for p in ps if p and p[-1][0] in ("args", "list", "tuple")]
        if not cands:
            return None
        p = cands[pick(len(cands))]
        parent = get_at(e, p[:-1])
        k, i = p[-1]
        parent[k][i] = {"list": [parent[k][i]]}
        return e
    if name == "literal":
        cands = [p for p in ps if "lit" in get_at(e, p) and p]
        if not cands:
            return None
        t = get_at(e, cands[pick(len(cands))])
        t["lit"] = "Lmut" if t["lit"] != "Lmut" else "Lmut2"
        return e
    if name == "drop":
        cands = [p for p in ps if any(k in get_at(e, p) and len(get_at(e, p)[k]) >= 1 for k in ("list", "args"))]
        if not cands:
            return None
        t = get_at(e, cands[pick(len(cands))])
        k = "list" if "list" in t and t["list"] else "args"
        if not t.get(k):
            return None
        t[k].pop()
        return e
    raise ValueError(name)


def valuations(seed):
    out = []
    for r in range(3):
        out.append({k: ("val", seed + 10 * r + i) for i, k in enumerate(KEYS)})
    return out


def check(case):
    from dask._task_spec import GraphNode
    from dask.tokenize import tokenize

    sig = dict(mut=case.get("mut", "none"))
    with impl("build nodes", **sig):
        a = build_node(case["a"], case["keyed"])
        b = build_node(case["b"], case["keyed"])
    if not isinstance(a, GraphNode) or not isinstance(b, GraphNode):
        # plain literals are not task nodes
        from vf.core import Reject

        raise Reject("not a graph node")
    with impl("compare nodes", **sig):
        eq = bool(a == b)
        tok = tokenize(a) == tokenize(b)
        try:
            heq = hash(a) == hash(b)
        except TypeError:
            heq = False
    claimed = eq or tok or (heq and eq)
    from vf import core

    if claimed:
        core.count("claimed_equal")
    else:
        core.count("claimed_different")
        return
    for vals in valuations(case.get("seed", 0)):
        with impl("evaluate", **sig):
            va = a({k: vals[k] for k in a.dependencies})
            vb = b({k: vals[k] for k in b.dependencies})
        ensure(
            _same(va, vb),
            f"nodes claimed equal (==:{eq}, token:{tok}) but compute different values: {short(va)} vs {short(vb)}; a={short(a)} b={short(b)}",
            "equal-nodes-different-values",
            via="eq" if eq else "token",
            **sig,
        )


def _same(a, b):
    if type(a) is not type(b):
        return False
    if isinstance(a, (list, tuple)):
        return len(a) == len(b) and all(_same(x, y) for x, y in zip(a, b))
    if isinstance(a, dict):
        return a.keys() == b.keys() and all(_same(a[k], b[k]) for k in a)
    return a == b


def nontrivial(case):
    return case.get("mut") not in (None, "none")


def classes(case):
    yield "mut-" + str(case.get("mut", "none"))
    yield "keyed" if case["keyed"] else "anonymous"


@st.composite
def pair_case(draw):
    top = draw(st.sampled_from(["call", "call", "container", "alias"]))
    es = dags.expr_strategy(NKEYS, "taskspec", extras=True, hashable_nodes=())
    if top == "alias":
        i = draw(st.integers(0, NKEYS - 1))
        seed = draw(st.integers(0, 1000))
        if draw(st.booleans()):
            return {"a": {"ref": i}, "b": {"ref": i}, "keyed": True, "mut": "none", "seed": seed}
        return {"a": {"ref": i}, "b": {"ref": (i + 1) % NKEYS}, "keyed": True, "mut": "ref", "seed": seed}
    if top == "call":
        expr = {"call": draw(st.sampled_from(dags.FN)), "args": draw(st.lists(es, min_size=1, max_size=3))}
        if draw(st.booleans()):
            expr["kwargs"] = draw(st.dictionaries(st.sampled_from(["p", "q"]), es, min_size=1, max_size=2))
        keyed = draw(st.booleans())
    else:
        kind = draw(st.sampled_from(["list", "tuple", "dict"]))
        if kind == "dict":
            expr = {"dict": [[k, draw(es)] for k in draw(st.lists(st.sampled_from(["La", "Lb", "Lc", 1, 2, "1"]), min_size=2, max_size=3, unique=True))]}
        else:
            expr = {kind: draw(st.lists(es, min_size=2, max_size=4))}
        keyed = False
    name = draw(st.sampled_from(["none"] + MUTS + MUTS))
    seed = draw(st.integers(0, 1000))
    if name == "none":
        return {"a": expr, "b": expr, "keyed": keyed, "mut": "none", "seed": seed}
    if draw(st.integers(0, 9)) == 0:
        other = draw(es)
        return {"a": expr, "b": other, "keyed": False, "mut": "independent", "seed": seed}
    picks = draw(st.lists(st.integers(0, 100), min_size=4, max_size=4))
    b = mutate(expr, name, picks)
    if b is None:
        return {"a": expr, "b": expr, "keyed": keyed, "mut": "none", "seed": seed}
    return {"a": expr, "b": b, "keyed": keyed, "mut": name, "seed": seed}


def enum_cases(tier):
    import itertools

    leaves = [{"ref": 0}, {"ref": 1}, {"lit": "La"}, {"lit": 1}, {"call": "f0", "args": [{"ref": 2}]}]
    n = 3 if tier == "quick" else 4
    for kind in ("list", "tuple"):
        for elems in itertools.permutations(leaves, n):
            base = {kind: list(elems)}
            for perm in itertools.permutations(range(n)):
                if perm == tuple(range(n)):
                    continue
                yield {"a": base, "b": {kind: [elems[i] for i in perm]}, "keyed": False, "mut": "permute", "seed": 1}
                yield {
                    "a": {"call": "f1", "args": [base]},
                    "b": {"call": "f1", "args": [{kind: [elems[i] for i in perm]}]},
                    "keyed": True,
                    "mut": "permute",
                    "seed": 2,
                }
    keys = ["La", "Lb", 1]
    for vals in itertools.permutations(leaves, 3):
        base = {"dict": [[k, v] for k, v in zip(keys, vals)]}
        for perm in itertools.permutations(range(3)):
            if perm == (0, 1, 2):
                continue
            other = {"dict": [[k, vals[i]] for k, i in zip(keys, perm)]}
            yield {"a": base, "b": other, "keyed": False, "mut": "dict-swap-values", "seed": 3}
            yield {"a": {"call": "f2", "args": [], "kwargs": {"p": base}}, "b": {"call": "f2", "args": [], "kwargs": {"p": other}}, "keyed": True, "mut": "dict-swap-values", "seed": 4}
    # keys of different types that print alike (1 / "1"; 2 / "2")
    for ka, kb in [(1, "1"), ("1", 1), (2, "2"), (1, 1)]:
        for v in leaves[:3]:
            a_ = {"dict": [[ka, v], ["La", {"lit": 0}]]}
            b_ = {"dict": [[kb, v], ["La", {"lit": 0}]]}
            yield {"a": a_, "b": b_, "keyed": False, "mut": "none" if ka == kb and type(ka) is type(kb) else "dict-key-type", "seed": 7}
            yield {"a": {"call": "f2", "args": [a_]}, "b": {"call": "f2", "args": [b_]}, "keyed": True, "mut": "none" if ka == kb and type(ka) is type(kb) else "dict-key-type", "seed": 8}
    for i in range(NKEYS):
        for j in range(NKEYS):
            yield {"a": {"ref": i}, "b": {"ref": j}, "keyed": True, "mut": "none" if i == j else "ref", "seed": 6}
    # sets: order is irrelevant (equal and same value) - keeps the 'claimed equal' arm populated
    for elems in itertools.permutations([{"lit": 1}, {"lit": "La"}, {"lit": 2}], 3):
        yield {"a": {"set": [{"lit": 1}, {"lit": "La"}, {"lit": 2}]}, "b": {"set": list(elems)}, "keyed": False, "mut": "none", "seed": 5}


SUBCHECKS = [
    Sub("enum", check, kind="enum", cases=enum_cases, nontrivial=nontrivial, classes=classes, exhaustive=True, doc="all permutations of small List/Tuple containers and all value re-pairings of small Dict containers, bare and as Task arguments"),
    Sub("pairs", check, strategy=lambda tier: pair_case(), n={"quick": 2500, "thorough": 100000}, nontrivial=nontrivial, classes=classes, doc="generated node expressions and structural mutations"),
]
