"""Task-graph case specs: builders (spec -> live legacy / task-spec graph), the
reference evaluator (spec -> values, dependencies, needed set) and the term
functions used as task bodies.

A graph spec is plain JSON:

    {"style": "legacy" | "taskspec",
     "nodes": [{"k": <keyspec>, "body": <expr>}, ...],      # topological order
     "external": {<str key>: <literal>}?}                   # keys outside the graph

    expr := {"lit": v}            literal (int/float/str/bool/None, nested lists = list literal)
          | {"tuplit": [v...]}    literal tuple of plain values (never headed by a callable)
          | {"ref": i}            reference to node i's key      ("ext": name -> external key)
          | {"call": "f1", "args": [expr...], "kwargs": {name: expr}, "node": i?}
          | {"list": [expr...]} | {"tuple": [expr...]} | {"set": [expr...]}
          | {"dict": [[keylit, expr], ...]}     the (dict, [[k, v], ...]) idiom / Dict container
          | {"rawdict": [[keylit, expr], ...]}  a raw python dict argument
          | {"quote": v}          dask.core.quote(list-literal)

The *meaning* of a spec is defined by ``RefEval`` below, written from
docs/source/spec.rst and the statement of C08; it shares no code with dask.
"""
from __future__ import annotations

import os
import threading
import time

# --------------------------------------------------------------------------
# term functions


class _Runtime:
    def __init__(self):
        self.lock = threading.Lock()
        self.reset()

    def reset(self):
        self.log = []  # (event, node, tick, args, runid)
        self.tick = 0
        self.enabled = False
        self.runid = getattr(self, "runid", 0) + 1


RUNTIME = _Runtime()


class InjectedError(Exception):
    """Custom exception with extra constructor arguments."""

    def __init__(self, msg, code=0):
        super().__init__(msg)
        self.msg = msg
        self.code = code

    def __reduce__(self):
        return (InjectedError, (self.msg, self.code))

    def __str__(self):
        return self.msg


class InjectedBase(BaseException):
    pass


class OtherLibrary:
    """namespace of a 'second library' whose exception class has the SAME __name__ as InjectedError"""

    class InjectedError(Exception):
        pass


class InjectedChild(InjectedError):
    """subclass of InjectedError: a failure of this type must still be caught by `except InjectedChild`"""

    def __reduce__(self):
        return (InjectedChild, (self.msg, self.code))


class Unpicklable(Exception):
    def __init__(self, msg):
        super().__init__(msg)
        self.lock = threading.Lock()


def make_exc(kind, msg):
    if kind == "ValueError":
        return ValueError(msg)
    if kind == "custom":
        return InjectedError(msg, 7)
    if kind == "samename":
        return OtherLibrary.InjectedError(msg)
    if kind == "base":
        return InjectedBase(msg)
    if kind == "keyboard":
        return KeyboardInterrupt(msg)
    if kind == "unpicklable":
        return Unpicklable(msg)
    if kind == "ZeroDivisionError":
        return ZeroDivisionError(msg)
    if kind == "child":
        return InjectedChild(msg, 8)
    if kind in ("ArithmeticError", "LookupError", "IndexError"):
        return EXC_TYPES[kind](msg)
    raise ValueError(kind)


EXC_TYPES = {
    "ValueError": ValueError,
    "custom": InjectedError,
    "base": InjectedBase,
    "samename": OtherLibrary.InjectedError,
    "keyboard": KeyboardInterrupt,
    "unpicklable": Unpicklable,
    "ZeroDivisionError": ZeroDivisionError,
    "ArithmeticError": ArithmeticError,
    "LookupError": LookupError,
    "IndexError": IndexError,
    "child": InjectedChild,
}


import collections

NT = collections.namedtuple("NT", ["a", "b"])


class TermFn:
    """Injective term constructor: f(*a, **kw) == (name, a, sorted(kw)).

    Any mis-routed, dropped, duplicated or re-ordered argument changes the
    value, so equality of results is structural identity of the computation.
    Picklable by reference to this module (spawned workers import vf.graphs).
    """

    def __init__(self, name, node=None, fail=None, sleep=0.0, logfile=None, runid=0):
        self.runid = runid
        self.name = name
        self.node = node
        self.fail = fail  # None | [kind, msg]
        self.sleep = sleep
        self.logfile = logfile

    def __call__(self, *a, **kw):
        node = self.node
        if node is not None:
            if self.logfile:
                fd = os.open(self.logfile, os.O_WRONLY | os.O_APPEND | os.O_CREAT)
                os.write(fd, f"start {node} {time.monotonic_ns()} {os.getpid()}\n".encode())
                os.close(fd)
            if RUNTIME.enabled:
                with RUNTIME.lock:
                    RUNTIME.tick += 1
                    RUNTIME.log.append(("start", node, RUNTIME.tick, a, self.runid))
        if self.sleep:
            time.sleep(self.sleep)
        if self.fail:
            raise make_exc(*self.fail)
        if self.name == "ident":
            res = a[0]  # returns its argument unchanged (e.g. a string that equals a key)
        elif self.name == "mktask":
            res = (TermFn("f9"), 1)  # a value that LOOKS like a legacy task
        else:
            res = (self.name, a, tuple(sorted(kw.items())))
        if node is not None:
            if RUNTIME.enabled:
                with RUNTIME.lock:
                    RUNTIME.tick += 1
                    RUNTIME.log.append(("end", node, RUNTIME.tick, None, self.runid))
            if self.logfile:
                fd = os.open(self.logfile, os.O_WRONLY | os.O_APPEND | os.O_CREAT)
                os.write(fd, f"end {node} {time.monotonic_ns()} {os.getpid()}\n".encode())
                os.close(fd)
        return res

    def __repr__(self):
        return f"<{self.name}@{self.node}>"

    def __eq__(self, other):
        return isinstance(other, TermFn) and (self.name, self.node, self.fail) == (other.name, other.node, other.fail)

    def __hash__(self):
        return hash((self.name, self.node))

    def __dask_tokenize__(self):
        return ("TermFn", self.name, self.node, self.fail)


# --------------------------------------------------------------------------
# keys and literals


def tokey(k):
    """JSON keyspec -> dask key: lists become tuples."""
    if isinstance(k, list):
        return tuple(tokey(x) for x in k)
    return k


def tolit(v):
    return v


def node_key(spec, i):
    return tokey(spec["nodes"][i]["k"])


def ext_key(name):
    return "ext-" + name


# --------------------------------------------------------------------------
# reference evaluator (independent of dask)


class RefEval:
    def __init__(self, spec):
        self.spec = spec
        self.nodes = spec["nodes"]
        self.values = {}
        self.external = {ext_key(k): v for k, v in (spec.get("external") or {}).items()}

    # value of node i
    def node(self, i):
        if i not in self.values:
            self.values[i] = self.ev(self.nodes[i]["body"], top=i)
        return self.values[i]

    def ev(self, e, top=None):
        if "lit" in e:
            return e["lit"]
        if "tuplit" in e:
            return tuple(_deep_tuple(x) for x in e["tuplit"])
        if "quote" in e:
            return e["quote"]
        if "ref" in e:
            return self.node(e["ref"])
        if "ext" in e:
            return self.external[ext_key(e["ext"])]
        if "call" in e:
            a = tuple(self.ev(x) for x in e.get("args", []))
            kw = {k: self.ev(v) for k, v in (e.get("kwargs") or {}).items()}
            if e["call"] == "ident":
                return a[0]
            if e["call"] == "mktask":
                return (TermFn("f9"), 1)
            return (e["call"], a, tuple(sorted(kw.items())))
        if "list" in e:
            return [self.ev(x) for x in e["list"]]
        if "tuple" in e:
            return tuple(self.ev(x) for x in e["tuple"])
        if "set" in e:
            return {self.ev(x) for x in e["set"]}
        if "dict" in e:
            return {tokey(k): self.ev(v) for k, v in e["dict"]}
        if "rawdict" in e:
            return {tokey(k): self.ev(v) for k, v in e["rawdict"]}
        if "rawdict_ts" in e:
            return {tokey(k): self.ev(v) for k, v in e["rawdict_ts"]}
        if "nt" in e:
            return NT(self.ev(e["nt"][0]), self.ev(e["nt"][1]))
        raise ValueError(f"bad expr {e}")

    # node indices referenced directly by node i's body
    def refs(self, i):
        out = set()
        _collect_refs(self.nodes[i]["body"], out)
        return out

    def ext_refs(self, i):
        out = set()
        _collect_refs(self.nodes[i]["body"], out, ext=True)
        return out

    def needed(self, request):
        """Set of node indices needed to compute the request (transitive)."""
        stack = list(flat_request(request))
        seen = set()
        while stack:
            i = stack.pop()
            if i in seen:
                continue
            seen.add(i)
            stack.extend(self.refs(i))
        return seen

    def pack(self, request):
        if isinstance(request, list):
            return tuple(self.pack(r) for r in request)
        return self.node(request)


def _deep_tuple(x):
    return tuple(_deep_tuple(y) for y in x) if isinstance(x, list) else x


def _collect_refs(e, out, ext=False):
    if "ref" in e:
        if not ext:
            out.add(e["ref"])
        return
    if "ext" in e:
        if ext:
            out.add(ext_key(e["ext"]))
        return
    for k in ("args", "list", "tuple", "set", "nt"):
        for x in e.get(k) or ():
            _collect_refs(x, out, ext)
    for v in (e.get("kwargs") or {}).values():
        _collect_refs(v, out, ext)
    for k in ("dict", "rawdict", "rawdict_ts"):
        for _, v in e.get(k) or ():
            _collect_refs(v, out, ext)


def flat_request(request):
    if isinstance(request, list):
        for r in request:
            yield from flat_request(r)
    else:
        yield request


def is_callable_node(body):
    """Does the node execute a user function (as opposed to data/alias/list)?"""
    return "call" in body


def count_calls(e):
    n = 1 if "call" in e else 0
    for k in ("args", "list", "tuple", "set", "nt"):
        for x in e.get(k) or ():
            n += count_calls(x)
    for v in (e.get("kwargs") or {}).values():
        n += count_calls(v)
    for k in ("dict", "rawdict"):
        for _, v in e.get(k) or ():
            n += count_calls(v)
    return n


# --------------------------------------------------------------------------
# builders


class Build:
    """spec -> live graph.  ``opts``: {"log": bool, "fail": {node: [kind,msg]},
    "sleep": {node: seconds}, "logfile": path}"""

    def __init__(self, spec, opts=None):
        self.spec = spec
        self.opts = opts or {}
        self.style = spec.get("style", "legacy")

    def fn(self, name, node=None):
        o = self.opts
        fail = (o.get("fail") or {}).get(node) if node is not None else None
        if fail is None and node is not None:
            fail = (o.get("fail") or {}).get(str(node))
        sleep = (o.get("sleep") or {}).get(node, 0.0) if node is not None else 0.0
        if node is not None and not sleep:
            sleep = (o.get("sleep") or {}).get(str(node), 0.0)
        return TermFn(
            name,
            node=node,
            fail=fail,
            sleep=sleep,
            logfile=o.get("logfile") if node is not None else None,
            runid=RUNTIME.runid,
        )

    def key(self, i):
        return node_key(self.spec, i)

    def graph(self):
        dsk = {}
        for i, n in enumerate(self.spec["nodes"]):
            k = self.key(i)
            if k in dsk:
                raise ValueError(f"generator error: duplicate key {k!r} in the graph spec")  # harness error, not a violation
            style = n.get("style", self.style)
            if style == "legacy":
                dsk[k] = self.legacy(n["body"], top=i)
            else:
                dsk[k] = self.tasknode(k, n["body"], top=i)
        return dsk

    def keys(self, request):
        if isinstance(request, list):
            return [self.keys(r) for r in request]
        return self.key(request)

    def external_cache(self):
        return {ext_key(k): v for k, v in (self.spec.get("external") or {}).items()}

    # ---- legacy tuples -----------------------------------------------------
    def legacy(self, e, top=None):
        from dask.core import quote

        if "lit" in e:
            return e["lit"]
        if "tuplit" in e:
            return tuple(_deep_tuple(x) for x in e["tuplit"])
        if "quote" in e:
            return quote(e["quote"])
        if "ref" in e:
            return self.key(e["ref"])
        if "ext" in e:
            return ext_key(e["ext"])
        if "call" in e:
            if e.get("kwargs"):
                raise ValueError("legacy tuple tasks have no kwargs")
            return (self.fn(e["call"], top), *[self.legacy(x) for x in e.get("args", [])])
        if "list" in e:
            return [self.legacy(x) for x in e["list"]]
        if "tuple" in e:
            return tuple(self.legacy(x) for x in e["tuple"])
        if "set" in e:
            return {self.legacy(x) for x in e["set"]}
        if "dict" in e:
            return (dict, [[tokey(k), self.legacy(v)] for k, v in e["dict"]])
        if "rawdict" in e:
            return {tokey(k): self.legacy(v) for k, v in e["rawdict"]}
        if "rawdict_ts" in e:
            # raw dict argument holding task objects / TaskRefs (see DESIGN 8.1)
            return {tokey(k): self.targ(v) for k, v in e["rawdict_ts"]}
        if "nt" in e:
            return NT(self.legacy(e["nt"][0]), self.legacy(e["nt"][1]))
        raise ValueError(f"bad expr {e}")

    # ---- task-spec objects -------------------------------------------------
    def tasknode(self, k, e, top=None):
        from dask._task_spec import Alias, DataNode, Task

        if "ref" in e:
            return Alias(k, target=self.key(e["ref"]))
        if "ext" in e:
            return Alias(k, target=ext_key(e["ext"]))
        if "call" in e:
            args = [self.targ(x) for x in e.get("args", [])]
            kwargs = {kk: self.targ(v) for kk, v in (e.get("kwargs") or {}).items()}
            return Task(k, self.fn(e["call"], top), *args, **kwargs)
        if "lit" in e or "tuplit" in e or "quote" in e:
            return DataNode(k, RefEval(self.spec).ev(e))
        # top-level container: a Task building the container
        inner = self.targ(e)
        from dask._task_spec import GraphNode

        if isinstance(inner, GraphNode):
            return Task(k, _ident, inner)
        return DataNode(k, inner)

    def targ(self, e):
        from dask._task_spec import Dict, List, Set, Task, TaskRef, Tuple

        if "lit" in e:
            return e["lit"]
        if "tuplit" in e:
            return tuple(_deep_tuple(x) for x in e["tuplit"])
        if "quote" in e:
            return e["quote"]
        if "ref" in e:
            return TaskRef(self.key(e["ref"]))
        if "ext" in e:
            return TaskRef(ext_key(e["ext"]))
        if "call" in e:
            args = [self.targ(x) for x in e.get("args", [])]
            kwargs = {kk: self.targ(v) for kk, v in (e.get("kwargs") or {}).items()}
            return Task(None, self.fn(e["call"]), *args, **kwargs)
        if "list" in e:
            # List([elems]) / Tuple((elems,)): the unambiguous constructor form
            # (List(x) with a single list argument x means "elements of x")
            return List([self.targ(x) for x in e["list"]])
        if "tuple" in e:
            return Tuple(tuple(self.targ(x) for x in e["tuple"]))
        if "set" in e:
            return Set(*[self.targ(x) for x in e["set"]])
        if "dict" in e or "rawdict" in e or "rawdict_ts" in e:
            items = e.get("dict") or e.get("rawdict") or e.get("rawdict_ts") or []
            return Dict({tokey(k): self.targ(v) for k, v in items})
        if "nt" in e:
            from dask._task_spec import parse_input

            return parse_input(NT(self.targ(e["nt"][0]), self.targ(e["nt"][1])))
        raise ValueError(f"bad expr {e}")


def _ident(x):
    return x


# --------------------------------------------------------------------------
# structural helpers on specs


def dependents_map(spec):
    r = RefEval(spec)
    dep = {i: set() for i in range(len(spec["nodes"]))}
    for i in range(len(spec["nodes"])):
        for j in r.refs(i):
            dep[j].add(i)
    return dep


def shape_classes(spec, request=None):
    r = RefEval(spec)
    n = len(spec["nodes"])
    dependents = dependents_map(spec)
    out = []
    if any(len(v) >= 2 for v in dependents.values()):
        out.append("fan-out")
    if any(len(r.refs(i)) >= 2 for i in range(n)):
        out.append("fan-in")
    # diamond: node with >=2 dependents that rejoin
    for a, ds in dependents.items():
        if len(ds) >= 2:
            reach = [_reach_up(dependents, d) | {d} for d in ds]
            if any(reach[x] & reach[y] for x in range(len(reach)) for y in range(x + 1, len(reach))):
                out.append("diamond")
                break
    if request is not None:
        need = r.needed(request)
        if len(need) < n:
            out.append("strict-subset-needed")
    return out


def _reach_up(dependents, i):
    seen = set()
    stack = list(dependents[i])
    while stack:
        x = stack.pop()
        if x in seen:
            continue
        seen.add(x)
        stack.extend(dependents[x])
    return seen
