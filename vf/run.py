"""Runner: ``python -m vf.run <ID> quick|thorough`` or ``--replay <file>``.

Exit 0: property held on everything explored (KNOWN-FINDING lines allowed).
Exit 1: ``VIOLATION property=<id> replay=<path>`` for a violation not listed
        in known_findings.json.
Exit 2: harness error (never a violation).
"""
from __future__ import annotations

import importlib
import json
import math
import multiprocessing as mp
import os
import sys
import time
import traceback

from vf.core import Reject, Sub, Violation, canon_json, spec_hash

HERE = os.path.dirname(os.path.dirname(os.path.abspath(__file__)))
# VERIF_BUDGET_SCALE shortens/lengthens every wall guard (dry runs of the thorough tier)
BUDGET_SCALE = float(os.environ.get("VERIF_BUDGET_SCALE", "1") or 1)
NCPU = int(os.environ.get("VERIF_JOBS", "0")) or min(16, os.cpu_count() or 1)


def load_known(prop):
    items = []
    # known_findings.json (lead) plus one committed file per property under findings/
    for path in (os.path.join(HERE, "known_findings.json"), os.path.join(HERE, "findings", f"{prop}.json")):
        if os.path.exists(path):
            with open(path) as f:
                items += json.load(f)
    return [k for k in items if k.get("property") == prop]


def match_known(known, sig):
    """An *open* finding suppresses only failures whose signature contains its
    ``match`` items.  Fixed entries suppress nothing."""
    for k in known:
        if k.get("status") != "open":
            continue
        m = k.get("match", {})
        if m and all(sig.get(a) == b for a, b in m.items()):
            return k
    return None


class ShardResult:
    def __init__(self):
        self.evaluations = 0
        self.rejected = 0
        self.skipped_budget = 0
        self.nontrivial = set()
        self.distinct = set()
        self.classes = {}
        self.samples_nt = []
        self.samples_other = []
        self.failures = []  # (spec, message, sig)
        self.known = {}  # finding id -> [count, example spec]
        self.error = None
        self.wall = 0.0
        self.shrink_calls = 0
        self.counters = {}


def _record(sub: Sub, res: ShardResult, spec):
    res.evaluations += 1
    h = spec_hash(spec)
    res.distinct.add(h)
    try:
        nt = bool(sub.nontrivial(spec))
    except Reject:
        nt = False
    if nt:
        if h not in res.nontrivial:
            res.nontrivial.add(h)
            if len(res.samples_nt) < 3:
                res.samples_nt.append(spec)
    elif len(res.samples_other) < 2:
        res.samples_other.append(spec)
    for c in sub.classes(spec) or ():
        res.classes[c] = res.classes.get(c, 0) + 1


def _run_one(sub: Sub, res: ShardResult, spec, known):
    """Returns None if ok/known/rejected; raises Violation for a new failure."""
    try:
        sub.check(spec)
    except Reject:
        res.rejected += 1
        return
    except Violation as v:
        sig = dict(v.sig)
        sig["sub"] = sub.name
        v.sig = sig
        k = match_known(known, sig)
        if k is not None:
            ent = res.known.setdefault(k["id"], [0, spec])
            ent[0] += 1
            return
        raise


def _spent(t0, c0):
    """Budget clock: CPU time of this shard, so that a loaded machine does not silently shrink the
    exploration; wall time only counts at a quarter (hangs / waiting on children still end the shard)."""
    return max(time.process_time() - c0, (time.time() - t0) / 4.0)


def run_enum_shard(sub: Sub, tier, shard, nshards, known, seed):
    res = ShardResult()
    t0 = time.time()
    c0 = time.process_time()
    budget = sub.budget_s[tier] * BUDGET_SCALE
    cap = None
    try:
        for i, spec in enumerate(sub.cases(tier)):
            if i % nshards != shard:
                continue
            if _spent(t0, c0) > budget:
                res.skipped_budget += 1
                continue
            if cap and res.evaluations >= cap:
                break
            _record(sub, res, spec)
            try:
                _run_one(sub, res, spec, known)
            except Violation as v:
                # collect (bucketed by signature) and keep going: a shallow
                # defect must not hide what lies behind it
                key = canon_json(v.sig)
                if not any(canon_json(f[2]) == key for f in res.failures):
                    res.failures.append((spec, v.message, v.sig))
                elif True:
                    # keep the smallest spec per signature
                    for j, f in enumerate(res.failures):
                        if canon_json(f[2]) == key and len(canon_json(spec)) < len(
                            canon_json(f[0])
                        ):
                            res.failures[j] = (spec, v.message, v.sig)
    except Exception:  # noqa: BLE001
        res.error = traceback.format_exc()
    res.wall = time.time() - t0
    return res


class _StopShrink(Exception):
    pass


def run_hyp_shard(sub: Sub, tier, shard, nshards, known, seed):
    import hypothesis
    from hypothesis import HealthCheck, Phase, given, settings

    res = ShardResult()
    t0 = time.time()
    c0 = time.process_time()
    total = sub.n[tier]
    n = max(1, math.ceil(total / nshards))
    budget = sub.budget_s[tier] * BUDGET_SCALE
    shrink_budget = 40 if tier == "quick" else 240
    state = {"first_fail": None, "best": None, "stop": False}

    strat = sub.strategy(tier)

    @hypothesis.seed((seed * 1009 + shard) * 7919 + (hash_name(sub.name) % 7907))
    @settings(
        max_examples=n,
        database=None,
        deadline=None,
        derandomize=False,
        report_multiple_bugs=False,
        suppress_health_check=[HealthCheck.too_slow, HealthCheck.data_too_large],
        phases=[Phase.generate, Phase.shrink],
        print_blob=False,
    )
    @given(strat)
    def test(spec):
        now = time.time()
        if state["first_fail"] is None:
            if _spent(t0, c0) > budget:
                res.skipped_budget += 1
                return
            _record(sub, res, spec)
        else:
            res.shrink_calls += 1
            if now - state["first_fail"] > shrink_budget:
                state["stop"] = True
                raise KeyboardInterrupt
        try:
            _run_one(sub, res, spec, known)
        except Violation as v:
            if state["first_fail"] is None:
                state["first_fail"] = time.time()
            size = len(canon_json(spec))
            if state["best"] is None or size <= state["best"][3]:
                state["best"] = (spec, v.message, v.sig, size)
            raise

    try:
        test()
    except Violation:
        pass
    except KeyboardInterrupt:
        if not state["stop"]:
            raise
    except hypothesis.errors.Flaky:
        if state["best"] is None:
            res.error = "hypothesis Flaky without a recorded failure:\n" + traceback.format_exc()
        else:
            b = state["best"]
            b[2]["flaky"] = True
    except BaseException:  # noqa: BLE001
        if state["best"] is None:
            res.error = traceback.format_exc()
    if state["best"] is not None:
        b = state["best"]
        res.failures.append((b[0], b[1], b[2]))
    res.wall = time.time() - t0
    return res


def hash_name(s):
    import zlib

    return zlib.crc32(s.encode())


def _shard_entry(args):
    modname, subname, tier, shard, nshards, known, seed = args
    mod = importlib.import_module(modname)
    sub = next(s for s in mod.SUBCHECKS if s.name == subname)
    from vf import core

    core.COUNTERS.clear()
    try:
        if sub.kind == "enum":
            r = run_enum_shard(sub, tier, shard, nshards, known, seed)
        else:
            r = run_hyp_shard(sub, tier, shard, nshards, known, seed)
        r.counters = dict(core.COUNTERS)
        return r
    except BaseException:  # noqa: BLE001
        r = ShardResult()
        r.error = traceback.format_exc()
        return r


def merge(results):
    out = ShardResult()
    for r in results:
        out.evaluations += r.evaluations
        out.rejected += r.rejected
        out.skipped_budget += r.skipped_budget
        out.nontrivial |= r.nontrivial
        out.distinct |= r.distinct
        out.shrink_calls += r.shrink_calls
        for c, v in r.counters.items():
            out.counters[c] = out.counters.get(c, 0) + v
        for c, v in r.classes.items():
            out.classes[c] = out.classes.get(c, 0) + v
        out.samples_nt += r.samples_nt
        out.samples_other += r.samples_other
        out.failures += r.failures
        for kid, (cnt, ex) in r.known.items():
            ent = out.known.setdefault(kid, [0, ex])
            ent[0] += cnt
        if r.error and not out.error:
            out.error = r.error
        out.wall = max(out.wall, r.wall)
    return out


def save_replay(prop, subname, spec, message, sig):
    d = os.path.join(HERE, "replays", prop, "found")
    os.makedirs(d, exist_ok=True)
    path = os.path.join(d, f"{subname.replace('/', '_')}-{spec_hash(spec)}.json")
    with open(path, "w") as f:
        json.dump(
            {"property": prop, "sub": subname, "spec": spec, "message": message, "sig": sig},
            f,
            indent=1,
            sort_keys=True,
            default=repr,
        )
    return os.path.relpath(path, HERE)


def run_replay_file(mod, path, known):
    """Returns ("ok"|"known"|"violation"|"error", detail, finding)."""
    with open(path) as f:
        rep = json.load(f)
    sub = next((s for s in mod.SUBCHECKS if s.name == rep["sub"]), None)
    if sub is None:
        return "error", f"unknown sub-check {rep['sub']} in {path}", None
    try:
        sub.check(rep["spec"])
    except Reject:
        return "ok", "rejected", None
    except Violation as v:
        sig = dict(v.sig)
        sig["sub"] = sub.name
        k = match_known(known, sig)
        if k is not None:
            return "known", v.message, k
        return "violation", v.message, None
    except Exception:  # noqa: BLE001
        return "error", traceback.format_exc(), None
    return "ok", "", None


def _replay_all(q, jobs):
    outs = []
    for j in jobs:
        try:
            outs.append(_replay_entry(j))
        except BaseException:  # noqa: BLE001
            outs.append(("error", traceback.format_exc(), None))
    # pools the replays started (process-scheduler cases) must not keep this child alive
    try:
        if "vf.schedengine" in sys.modules:
            sys.modules["vf.schedengine"].shutdown_pools(wait=True)
        mod = importlib.import_module(jobs[0][0])
        if hasattr(mod, "TEARDOWN"):
            mod.TEARDOWN()
        for ch in mp.active_children():
            ch.kill()
    except BaseException:  # noqa: BLE001
        pass
    q.put(outs)
    sys.stdout.flush()
    sys.stderr.flush()
    os._exit(0)


def _replay_entry(args):
    modname, path, known = args
    mod = importlib.import_module(modname)
    try:
        return run_replay_file(mod, path, known)
    except BaseException:  # noqa: BLE001
        return "error", traceback.format_exc(), None


def trunc(spec, limit=1500):
    s = canon_json(spec)
    if len(s) <= limit:
        return spec
    return {"truncated_spec_json": s[:limit] + "..."}


def main(argv=None):
    argv = list(sys.argv[1:] if argv is None else argv)
    if not argv:
        print("usage: run.py <ID> quick|thorough [--only sub] | <ID> --replay file", file=sys.stderr)
        return 2
    prop = argv[0]
    seed = int(os.environ.get("VERIF_SEED", "1") or 1)
    modname = f"vf.props.{prop.lower()}"
    try:
        mod = importlib.import_module(modname)
    except Exception:  # noqa: BLE001
        traceback.print_exc()
        print(f"HARNESS-ERROR property={prop} cannot import {modname}")
        return 2
    known = load_known(prop)
    for name in getattr(mod, "PRELOAD", ()):  # heavy imports before the pool forks
        importlib.import_module(name)

    if len(argv) >= 3 and argv[1] == "--replay":
        path = argv[2]
        st, detail, k = run_replay_file(mod, path, known)
        if st == "violation":
            print(detail)
            print(f"VIOLATION property={prop} replay={path}")
            return 1
        if st == "known":
            print(f"KNOWN-FINDING: property={prop} {k['what']}")
            return 0
        if st == "error":
            print(detail)
            return 2
        print(f"replay passes: {path}")
        return 0

    tier = argv[1] if len(argv) > 1 else os.environ.get("VERIF_TIER", "quick")
    if tier not in ("quick", "thorough"):
        print("tier must be quick or thorough", file=sys.stderr)
        return 2
    only = None
    if "--only" in argv:
        only = argv[argv.index("--only") + 1]

    t0 = time.time()
    violations = []  # (subname, spec, message, sig)
    known_seen = {}  # id -> (finding, count)
    errors = []

    # ---- replay tier: committed replays (fixed findings must stay fixed,
    # open findings are re-observed) ----------------------------------------
    rdir = os.path.join(HERE, "replays", prop)
    replayed = 0
    if os.path.isdir(rdir) and only is None:
        files = [os.path.join(rdir, fn) for fn in sorted(os.listdir(rdir)) if fn.endswith(".json")]
        # Replays run in a forked child: the parent must stay free of threads
        # (e.g. dask's default thread pool) until the worker pool has forked.
        outs = []
        if files:
            # (a plain non-daemonic process, not a Pool worker: replays of process-pool sub-checks start children)
            ctx_r = mp.get_context("fork")
            rq = ctx_r.SimpleQueue()
            proc = ctx_r.Process(target=_replay_all, args=(rq, [(modname, f, known) for f in files]), daemon=False)
            proc.start()
            outs = rq.get()
            proc.join()
        for p, (st, detail, k) in zip(files, outs):
            fn = os.path.basename(p)
            replayed += 1
            if st == "violation":
                with open(p) as f:
                    rep = json.load(f)
                violations.append((rep["sub"], rep["spec"], detail, {"replay": fn}, os.path.relpath(p, HERE)))
            elif st == "known":
                ent = known_seen.setdefault(k["id"], [k, 0])
                ent[1] += 1
            elif st == "error":
                errors.append(f"replay {fn}: {detail}")

    # ---- generated tiers ----------------------------------------------------
    subs = [s for s in mod.SUBCHECKS if only is None or s.name == only or s.name.startswith(only)]
    ctx = mp.get_context("fork")
    per_sub = {}
    # schedule all shards of all parallel subs on one pool so cores stay busy
    jobs = []
    for sub in subs:
        if sub.serial:
            continue
        nsh = min(NCPU, sub.shards or NCPU)
        if sub.kind == "hyp":
            nsh = max(1, min(nsh, sub.n[tier] // 8 or 1))
        for sh in range(nsh):
            jobs.append((modname, sub.name, tier, sh, nsh, known, seed))
    results = {}
    if jobs:
        with ctx.Pool(min(NCPU, len(jobs))) as pool:
            outs = pool.map(_shard_entry, jobs, chunksize=1)
        for job, out in zip(jobs, outs):
            results.setdefault(job[1], []).append(out)
    for sub in subs:
        if sub.serial:
            results[sub.name] = [_shard_entry((modname, sub.name, tier, 0, 1, known, seed))]
    if hasattr(mod, "TEARDOWN"):
        try:
            mod.TEARDOWN()
        except Exception:  # noqa: BLE001
            pass

    total_eval = 0
    total_nt = 0
    samples = []
    classes = {}
    sub_report = {}
    exhaustive_all = bool(subs) and all(s.exhaustive for s in subs)
    for sub in subs:
        m = merge(results[sub.name])
        per_sub[sub.name] = m
        total_eval += m.evaluations
        total_nt += len(m.nontrivial)
        for s in (m.samples_nt[:3] + m.samples_other[:1])[:3]:
            samples.append({"sub": sub.name, "spec": trunc(s)})
        for c, v in m.classes.items():
            classes[f"{sub.name}:{c}"] = v
        sub_report[sub.name] = {
            "kind": sub.kind,
            "evaluations": m.evaluations,
            "distinct": len(m.distinct),
            "distinct_nontrivial": len(m.nontrivial),
            "rejected_out_of_domain": m.rejected,
            "skipped_after_time_budget": m.skipped_budget,
            "excluded_known": {k: v[0] for k, v in m.known.items()},
            "exhaustive": bool(sub.exhaustive and m.skipped_budget == 0),
            "doc": sub.doc,
            "counters": m.counters,
            "wall_s": round(m.wall, 2),
        }
        if m.error:
            errors.append(f"{sub.name}: {m.error}")
        for kid, (cnt, ex) in m.known.items():
            k = next(x for x in known if x["id"] == kid)
            ent = known_seen.setdefault(kid, [k, 0])
            ent[1] += cnt
        seen_sigs = set()
        for spec, message, sig in m.failures:
            key = canon_json(sig)
            if key in seen_sigs:
                continue
            seen_sigs.add(key)
            path = save_replay(prop, sub.name, spec, message, sig)
            violations.append((sub.name, spec, message, sig, path))
        if sub.kind == "enum" and m.skipped_budget:
            exhaustive_all = False

    wall = time.time() - t0
    ev = {
        "property_id": prop,
        "tier": tier,
        "seed": seed,
        "level": getattr(mod, "LEVEL", "exploration"),
        "coverage": {
            "evaluations": total_eval,
            "distinct_nontrivial": total_nt,
            "rule": getattr(mod, "RULE", ""),
            "samples": samples[:24],
            "exhaustive": exhaustive_all,
            "classes": classes,
            "subchecks": sub_report,
            "replays_run": replayed,
            "known_findings_reobserved": {k: v[1] for k, v in known_seen.items()},
        },
        "assumptions": list(getattr(mod, "ASSUMPTIONS", [])),
        "wall_s": round(wall, 2),
        "violations": len(violations),
    }
    if only is None and not os.environ.get("VERIF_NO_EVIDENCE"):
        os.makedirs(os.path.join(HERE, "evidence"), exist_ok=True)
        with open(os.path.join(HERE, "evidence", f"{prop}.json"), "w") as f:
            json.dump(ev, f, indent=1, sort_keys=True, default=repr)

    for name, rep in sub_report.items():
        print(
            f"  {name}: evals={rep['evaluations']} nontrivial={rep['distinct_nontrivial']} "
            f"rejected={rep['rejected_out_of_domain']} skipped={rep['skipped_after_time_budget']} "
            f"known={rep['excluded_known']} wall={rep['wall_s']}s"
        )
    for kid, (k, cnt) in sorted(known_seen.items()):
        print(f"KNOWN-FINDING: property={prop} {k['id']}: {k['what']} (re-observed {cnt}x)")
    if errors:
        for e in errors:
            print("HARNESS-ERROR", e)
        print(f"HARNESS-ERROR property={prop} ({len(errors)} error(s)); not a violation")
        return 2
    if violations:
        for name, spec, message, sig, path in violations:
            print(f"--- {name}: {message[:2000]}")
            print(f"    sig={canon_json(sig)}")
            print(f"VIOLATION property={prop} replay={path}")
        return 1
    if total_eval < 1 or total_nt < 2:
        print(f"HARNESS-ERROR property={prop}: vacuous run (evaluations={total_eval}, nontrivial={total_nt})")
        return 2
    print(f"OK property={prop} tier={tier} seed={seed} evaluations={total_eval} nontrivial={total_nt} wall={wall:.1f}s")
    return 0


if __name__ == "__main__":
    sys.exit(main())
