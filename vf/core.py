"""Framework core: sub-check description, violation/signature types, helpers.

A property module (vf/props/cNN.py) exposes

    PROPERTY = "C07"
    LEVEL = "exploration"
    RULE = "how cases are generated and what makes one non-trivial"
    ASSUMPTIONS = [...]
    SUBCHECKS = [Sub(...), ...]

Each Sub decides one clause of the property over generated *specs* (plain JSON
values).  ``check(spec)`` rebuilds the live objects from the spec, runs the code
under test and raises ``Violation`` when the explicit oracle disagrees.  Any
other exception escaping ``check`` is a harness error (exit 2), never a
violation: calls into dask whose failure *is* a violation are wrapped in
``impl(...)``.
"""
from __future__ import annotations

import contextlib
import hashlib
import json
import traceback


class Violation(Exception):
    """The oracle disagreed with the implementation on this spec."""

    def __init__(self, message, symptom="mismatch", **sig):
        super().__init__(message)
        self.message = str(message)
        self.sig = {"symptom": symptom}
        self.sig.update(sig)


class Reject(Exception):
    """The spec is outside the property's domain (e.g. the reference itself
    rejects the input).  Counted, never a violation."""


class Sub:
    def __init__(
        self,
        name,
        check,
        *,
        kind="hyp",  # "hyp" | "enum"
        strategy=None,  # callable(tier) -> hypothesis strategy of specs
        cases=None,  # callable(tier) -> iterable of specs   (enum)
        n=None,  # {"quick": int, "thorough": int}  (hyp: examples; enum: optional cap)
        nontrivial=None,  # callable(spec) -> bool
        classes=None,  # callable(spec) -> iterable[str]
        budget_s=None,  # {"quick": s, "thorough": s} wall guard per shard
        shards=None,  # max shards (default: all cores)
        exhaustive=False,  # enum covers a stated finite space completely
        doc="",
        serial=False,  # run in the parent process (needs own process pools etc.)
    ):
        self.name = name
        self.check = check
        self.kind = kind
        self.strategy = strategy
        self.cases = cases
        self.n = n or {"quick": 200, "thorough": 4000}
        self.nontrivial = nontrivial or (lambda spec: True)
        self.classes = classes or (lambda spec: ())
        self.budget_s = budget_s or {"quick": 60, "thorough": 900}
        self.shards = shards
        self.exhaustive = exhaustive
        self.doc = doc
        self.serial = serial


def canon_json(spec):
    return json.dumps(spec, sort_keys=True, separators=(",", ":"), default=repr)


def spec_hash(spec):
    return hashlib.sha1(canon_json(spec).encode()).hexdigest()[:16]


@contextlib.contextmanager
def impl(label, **sig):
    """Run implementation code; an exception here is a violation of the
    property ("handled or computed correctly"), with a stable signature."""
    try:
        yield
    except (Violation, Reject):
        raise
    except KeyboardInterrupt:
        raise
    except BaseException as e:  # noqa: BLE001 - deliberate: report, do not mask
        tb = traceback.extract_tb(e.__traceback__)
        where = ""
        for fr in reversed(tb):
            if "/dask/" in fr.filename:
                where = f"{fr.filename.split('/dask/', 1)[1]}:{fr.name}"
                break
        raise Violation(
            f"{label}: implementation raised {type(e).__name__}: {e}",
            symptom=f"raises:{type(e).__name__}",
            where=where,
            **sig,
        ) from e


def reference(fn, *a, **k):
    """Run the oracle; returns ("ok", value) or ("err", exception)."""
    try:
        return "ok", fn(*a, **k)
    except Exception as e:  # noqa: BLE001
        return "err", e


def ensure(cond, message, symptom="mismatch", **sig):
    if not cond:
        raise Violation(message, symptom=symptom, **sig)


def short(x, n=300):
    s = repr(x)
    return s if len(s) <= n else s[: n - 3] + "..."


@contextlib.contextmanager
def time_limit(seconds, label, wall=False, **sig):
    """Hang detector for code that must terminate on tiny inputs.  By default
    the limit is on CPU time consumed by this process (ITIMER_PROF), so a busy
    machine cannot turn slowness into a false alarm; an infinite loop burns CPU
    and is caught.  ``wall=True`` (blocking hangs, e.g. a scheduler waiting on a
    queue) uses wall-clock time and must be given a very generous bound.
    Main thread only (forked pool workers run checks in their main thread)."""
    import signal

    class _Hang(BaseException):
        pass

    def handler(signum, frame):
        raise _Hang()

    which, signo = (signal.ITIMER_REAL, signal.SIGALRM) if wall else (signal.ITIMER_PROF, signal.SIGPROF)
    old = signal.signal(signo, handler)
    signal.setitimer(which, seconds)
    try:
        yield
    except _Hang:
        kind = "wall-clock" if wall else "CPU"
        raise Violation(f"{label}: did not terminate within {seconds}s of {kind} time", symptom="hang", **sig) from None
    finally:
        signal.setitimer(which, 0)
        signal.signal(signo, old)


# --------------------------------------------------------------------------
# extra measured counters (e.g. interleavings explored inside one spec)
COUNTERS: dict = {}


def count(name, k=1):
    COUNTERS[name] = COUNTERS.get(name, 0) + k
