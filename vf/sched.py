"""Controlled executor: the harness owns the completion schedule.

``dask.local.get_async`` learns about finished batches only through its private
queue (filled by ``Future.add_done_callback(queue.put)``) and blocks in
``dask.local.queue_get``.  ``ControlledExecutor.submit`` keeps submitted
batches pending; while a run is active ``dask.local.queue_get`` is replaced (in
this process only, by attribute assignment from /verif) by a function that,
whenever the scheduler is about to block, picks one pending batch according to
the schedule's choice list, runs it in the calling thread and completes its
future.  Every completion order that a real pool of ``num_workers`` workers
could produce is reachable this way, deterministically and replayably, and a
deadlock (scheduler would block with nothing pending) is detected without a
wall clock.
"""
from __future__ import annotations

import contextlib
from concurrent.futures import Future


class Deadlock(Exception):
    pass


class ControlledExecutor:
    def __init__(self, choices=()):
        self.choices = list(choices)
        self.pending = []
        self.pos = 0
        self.trace = []  # (n_pending, chosen)
        self.max_inflight = 0
        self.out_of_order = False
        self.submitted = 0
        self._seq = 0

    def submit(self, fn, *args, **kwargs):
        fut = Future()
        self._seq += 1
        self.pending.append((self._seq, fut, fn, args, kwargs))
        self.submitted += 1
        self.max_inflight = max(self.max_inflight, len(self.pending))
        return fut

    def step(self):
        if not self.pending:
            raise Deadlock("scheduler blocks on its queue while no batch is in flight")
        n = len(self.pending)
        c = self.choices[self.pos] % n if self.pos < len(self.choices) else 0
        self.pos += 1
        self.trace.append((n, c))
        if c != 0:
            self.out_of_order = True
        _, fut, fn, args, kwargs = self.pending.pop(c)
        try:
            res = fn(*args, **kwargs)
        except BaseException as e:  # noqa: BLE001 - mirror a pool: the future carries it
            fut.set_exception(e)
        else:
            fut.set_result(res)


_CURRENT = [None]


def _queue_get(q):
    ex = _CURRENT[0]
    while q.empty():
        ex.step()
    return q.get()


@contextlib.contextmanager
def controlled(choices=()):
    import dask.local as local

    ex = ControlledExecutor(choices)
    old = local.queue_get
    prev = _CURRENT[0]
    _CURRENT[0] = ex
    local.queue_get = _queue_get
    try:
        yield ex
    finally:
        local.queue_get = old
        _CURRENT[0] = prev


def next_choices(trace):
    """Odometer over the branching recorded in a finished run: the next choice
    prefix in DFS order, or None when the space is exhausted."""
    t = list(trace)
    while t:
        n, c = t[-1]
        if c + 1 < n:
            t[-1] = (n, c + 1)
            return [c for _, c in t]
        t.pop()
    return None


def explore_all(run, limit=None):
    """Enumerate every interleaving: ``run(choices) -> trace``.  Returns
    (number of runs, exhausted?)."""
    choices = []
    count = 0
    while True:
        trace = run(choices)
        count += 1
        choices = next_choices(trace)
        if choices is None:
            return count, True
        if limit is not None and count >= limit:
            return count, False
