"""Value specs for the tokenisation properties (C12, C13): builders and the
independent structural canonical form ``canon``.

A value spec is plain JSON:

  {"t":"int","v":5} {"t":"float","v":"0x1.8p+1"|"nan"|"inf"|"-inf"} {"t":"bool","v":true} {"t":"none"}
  {"t":"str","v":"a"} {"t":"bytes","v":"6162"} {"t":"complex","v":[1.0,2.0]}
  {"t":"list"|"tuple"|"set"|"frozenset","v":[spec...]}   {"t":"dict"|"odict","v":[[kspec,vspec],...]}
  {"t":"rec","kind":"list"|"dict","v":[spec...]}          self-referential container
  {"t":"np","dtype":"<i8","shape":[2,3],"data":[...flat C-order...],"layout":"C"|"F"|"strided"|"neg"|"offset"|"T"}
  {"t":"npobj","shape":[2],"data":[spec(str/bytes)...]}   object array
  {"t":"series"|"index"|"frame"|"cat"|"multiindex"|"nullable", ...}
  {"t":"dc","cls":"P"|"Q","fields":[spec,spec]}           dataclass instance
  {"t":"partial","fn":"f"|"g","args":[spec...],"kw":[[name,spec]...]}
  {"t":"fn","name":"f"|"g"|"lam0"|"lam1"|"clo","closure":spec?}

``canon(value)`` maps a live value to a nested tuple equal iff the values are
observably equal; it is computed with public NumPy/pandas APIs only and never
looks at memory layout.
"""
from __future__ import annotations

import collections
import dataclasses
import functools
import math

import numpy as np


@dataclasses.dataclass
class P:
    x: object
    y: object


@dataclasses.dataclass(frozen=True)
class Q:
    x: object
    y: object


def f(*a, **k):
    return ("f", a, k)


def g(*a, **k):
    return ("g", a, k)


lam0 = lambda x: x + 1  # noqa: E731
lam1 = lambda x: x + 2  # noqa: E731


def make_closure(c):
    def inner(x):
        return x + c

    return inner


def _float(v):
    if isinstance(v, str):
        if v in ("nan", "inf", "-inf"):
            return float(v)
        return float.fromhex(v)
    return float(v)


def build(spec, memo=None):
    t = spec["t"]
    if t == "int":
        return int(spec["v"])
    if t == "float":
        return _float(spec["v"])
    if t == "bool":
        return bool(spec["v"])
    if t == "none":
        return None
    if t == "str":
        return spec["v"]
    if t == "bytes":
        return bytes.fromhex(spec["v"])
    if t == "complex":
        return complex(_float(spec["v"][0]), _float(spec["v"][1]))
    if t == "list":
        return [build(x) for x in spec["v"]]
    if t == "tuple":
        return tuple(build(x) for x in spec["v"])
    if t == "set":
        return {build(x) for x in spec["v"]}
    if t == "frozenset":
        return frozenset(build(x) for x in spec["v"])
    if t == "dict":
        return {build(k): build(v) for k, v in spec["v"]}
    if t == "odict":
        return collections.OrderedDict((build(k), build(v)) for k, v in spec["v"])
    if t == "rec":
        if spec["kind"] == "list":
            out = [build(x) for x in spec["v"]]
            out.append(out)
            return out
        out = {i: build(x) for i, x in enumerate(spec["v"])}
        out["self"] = out
        return out
    if t == "np":
        return build_np(spec)
    if t == "npobj":
        arr = np.empty(len(spec["data"]), dtype=object)
        for i, x in enumerate(spec["data"]):
            arr[i] = build(x)
        return arr.reshape(spec["shape"])
    if t in ("series", "index", "frame", "cat", "multiindex", "nullable"):
        return build_pd(spec)
    if t == "dc":
        cls = {"P": P, "Q": Q}[spec["cls"]]
        return cls(build(spec["fields"][0]), build(spec["fields"][1]))
    if t == "partial":
        fn = {"f": f, "g": g}[spec["fn"]]
        return functools.partial(fn, *[build(x) for x in spec["args"]], **{k: build(v) for k, v in spec["kw"]})
    if t == "fn":
        n = spec["name"]
        if n == "clo":
            return make_closure(build(spec["closure"]))
        return {"f": f, "g": g, "lam0": lam0, "lam1": lam1}[n]
    raise ValueError(t)


def build_np(spec):
    dt = np.dtype(spec["dtype"])
    shape = tuple(spec["shape"])
    data = spec["data"]
    if dt.kind in "fc":
        flat = np.array([_float(x) for x in data], dtype=dt)
    elif dt.kind in "mM":
        flat = np.array(data, dtype="i8").view(dt)
    elif dt.kind == "b":
        flat = np.array([bool(x) for x in data], dtype=dt)
    elif dt.kind in "US":
        flat = np.array(data, dtype=dt)
    else:
        flat = np.array(data, dtype=dt)
    x = flat.reshape(shape)
    lay = spec.get("layout", "C")
    if lay == "C" or x.ndim == 0:
        return np.ascontiguousarray(x)
    if lay == "F":
        return np.asfortranarray(x)
    if lay == "T":
        # transposed view of a C-contiguous buffer holding the transposed data
        return np.ascontiguousarray(x.T).T
    if lay == "Tstrided":
        # F-ordered AND non-contiguous (like arange(24).reshape(4, 6).T[::2]): pickling yields a C-contiguous copy
        xt = np.ascontiguousarray(x.T)
        big = np.zeros(tuple(2 * s for s in xt.shape), dtype=dt)
        view = big[tuple(slice(None, None, 2) for _ in xt.shape)]
        view[...] = xt
        return view.T
    if lay == "strided":
        big = np.zeros(tuple(2 * s for s in shape), dtype=dt)
        view = big[tuple(slice(None, None, 2) for _ in shape)]
        view[...] = x
        return view
    if lay == "neg":
        rev = np.ascontiguousarray(x[tuple(slice(None, None, -1) for _ in shape)])
        return rev[tuple(slice(None, None, -1) for _ in shape)]
    if lay == "offset":
        big = np.zeros(tuple(s + 2 for s in shape), dtype=dt)
        view = big[tuple(slice(1, 1 + s) for s in shape)]
        view[...] = x
        return view
    raise ValueError(lay)


def build_pd(spec):
    import pandas as pd

    t = spec["t"]
    if t == "index":
        return pd.Index(spec["data"], name=spec.get("name"), dtype=spec.get("dtype"))
    if t == "multiindex":
        return pd.MultiIndex.from_arrays([spec["a"], spec["b"]], names=spec.get("names", [None, None]))
    if t == "cat":
        return pd.Categorical.from_codes(spec["codes"], categories=spec["categories"], ordered=bool(spec.get("ordered")))
    if t == "nullable":
        vals = [pd.NA if v is None else v for v in spec["data"]]
        return pd.array(vals, dtype=spec["dtype"])
    if t == "series":
        idx = pd.Index(spec["index"]) if spec.get("index") is not None else None
        vals = spec["data"]
        if spec.get("dtype") in ("Int64", "boolean", "Float64"):
            vals = [pd.NA if v is None else v for v in vals]
        elif spec.get("dtype") in ("f8",):
            vals = [np.nan if v is None else v for v in vals]
        return pd.Series(vals, index=idx, name=spec.get("name"), dtype=spec.get("dtype"))
    if t == "frame":
        cols = collections.OrderedDict()
        for c in spec["columns"]:
            vals = c["data"]
            if c.get("dtype") in ("Int64", "boolean", "Float64"):
                vals = [pd.NA if v is None else v for v in vals]
            cols[c["name"]] = pd.Series(vals, dtype=c.get("dtype"))
        df = pd.DataFrame(cols)
        if spec.get("index") is not None:
            df.index = pd.Index(spec["index"])
        return df
    raise ValueError(t)


# --------------------------------------------------------------------------
# canonical form


def canon(v, _stack=None):
    import pandas as pd

    if _stack is None:
        _stack = []
    if v is None:
        return ("none",)
    if isinstance(v, bool):
        return ("bool", v)
    if isinstance(v, (np.bool_,)):
        return ("npscalar", "bool", bool(v))
    if isinstance(v, int):
        return ("int", v)
    if isinstance(v, float):
        return ("float", "nan" if math.isnan(v) else v.hex())
    if isinstance(v, complex):
        return ("complex", canon(v.real), canon(v.imag))
    if isinstance(v, str):
        return ("str", v)
    if isinstance(v, bytes):
        return ("bytes", v)
    if isinstance(v, slice):
        return ("slice", canon(v.start), canon(v.stop), canon(v.step))
    if isinstance(v, np.generic):
        return ("npscalar", v.dtype.str, canon(v.item()) if v.dtype.kind not in "mM" else int(v.view("i8")))
    for i, s in enumerate(_stack):
        if s is v:
            return ("backref", len(_stack) - i)
    if isinstance(v, (list, tuple)) and type(v) in (list, tuple):
        _stack.append(v)
        try:
            return (type(v).__name__, tuple(canon(x, _stack) for x in v))
        finally:
            _stack.pop()
    if isinstance(v, (set, frozenset)):
        return (type(v).__name__, tuple(sorted((canon(x) for x in v), key=repr)))
    if isinstance(v, collections.OrderedDict):
        _stack.append(v)
        try:
            return ("odict", tuple((canon(k, _stack), canon(x, _stack)) for k, x in v.items()))
        finally:
            _stack.pop()
    if isinstance(v, dict):
        _stack.append(v)
        try:
            return ("dict", tuple(sorted(((canon(k, _stack), canon(x, _stack)) for k, x in v.items()), key=repr)))
        finally:
            _stack.pop()
    if isinstance(v, np.ndarray):
        a = np.asarray(v)
        if a.dtype.kind in "mM":
            elems = tuple(int(x) for x in a.astype("i8").ravel(order="C"))
        elif a.dtype.hasobject:
            elems = tuple(canon(x) for x in a.ravel(order="C"))
        else:
            elems = tuple(canon(x) for x in a.ravel(order="C").tolist())
        return ("ndarray", a.dtype.str, a.shape, elems)
    if isinstance(v, pd.MultiIndex):
        return ("multiindex", tuple(v.names), tuple(canon(tuple(x)) for x in v.tolist()))
    if isinstance(v, pd.Index):
        return ("index", type(v).__name__, canon(v.name), str(v.dtype), tuple(_pdval(x) for x in v.tolist()))
    if isinstance(v, pd.Categorical):
        return ("categorical", tuple(_pdval(x) for x in v.categories.tolist()), bool(v.ordered), tuple(int(c) for c in v.codes))
    if isinstance(v, pd.Series):
        vals = canon(v.array) if isinstance(v.dtype, pd.CategoricalDtype) else tuple(_pdval(x) for x in v.tolist())
        return ("series", canon(v.name), str(v.dtype), canon(v.index), vals)
    if isinstance(v, pd.DataFrame):
        return (
            "frame",
            canon(v.index),
            tuple((canon(c), str(v.dtypes.iloc[i]), tuple(_pdval(x) for x in v.iloc[:, i].tolist())) for i, c in enumerate(v.columns)),
        )
    if isinstance(v, pd.api.extensions.ExtensionArray):
        return ("extarray", str(v.dtype), tuple(_pdval(x) for x in v.tolist()))
    if dataclasses.is_dataclass(v) and not isinstance(v, type):
        return ("dataclass", type(v).__qualname__, tuple((fl.name, canon(getattr(v, fl.name))) for fl in dataclasses.fields(v)))
    if isinstance(v, functools.partial):
        return ("partial", canon(v.func), canon(tuple(v.args)), canon(dict(v.keywords)))
    if callable(v):
        clo = ()
        if getattr(v, "__closure__", None):
            clo = tuple(canon(c.cell_contents) for c in v.__closure__)
        code = getattr(v, "__code__", None)
        return ("function", getattr(v, "__module__", None), getattr(v, "__qualname__", None), code.co_code if code else None, code.co_consts if code else None, clo)
    raise TypeError(f"no canonical form for {type(v)}")


def _pdval(x):
    import pandas as pd

    if x is pd.NA:
        return ("NA",)
    if x is pd.NaT:
        return ("NaT",)
    if isinstance(x, pd.Timestamp):
        return ("ts", x.value)
    return canon(x)
