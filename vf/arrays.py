"""Shared helpers for the chunked-array properties (C19-C35).

Array spec (plain JSON):

    {"shape": [4, 3], "dtype": "f8", "seed": 7, "fill": "normal",
     "chunks": [[1, 3], [2, 0, 1]]}

``build_np(spec)`` gives the NumPy array (contents are a pure function of the
spec: ``np.random.default_rng(seed)`` plus injected special values);
``build_da(spec)`` wraps it with ``da.from_array(x, chunks=explicit tuples)``.
"""
from __future__ import annotations

import itertools

import numpy as np
from hypothesis import strategies as st

from vf.core import Violation

DTYPES_NUM = ["bool", "i1", "i2", "i4", "i8", "u1", "u8", "f4", "f8", "c16"]
DTYPES_ALL = DTYPES_NUM + ["M8[ns]", "m8[ns]"]


# --------------------------------------------------------------------------
# chunkings


def compositions(n):
    """All ordered compositions of n into positive parts (2**(n-1) of them);
    n == 0 -> [(0,)]."""
    if n == 0:
        return [(0,)]
    out = []
    for mask in range(1 << (n - 1)):
        parts = []
        cur = 1
        for b in range(n - 1):
            if mask >> b & 1:
                parts.append(cur)
                cur = 1
            else:
                cur += 1
        parts.append(cur)
        out.append(tuple(parts))
    return out


def all_chunkings(shape):
    """Every chunking (positive chunk sizes) of a shape."""
    return [list(map(list, c)) for c in itertools.product(*[compositions(n) for n in shape])]


@st.composite
def chunks_for_axis(draw, n, allow_zero=False):
    """A random composition of n; optionally with explicit zero-size chunks."""
    if n == 0:
        return [0]
    style = draw(st.sampled_from(["random", "random", "one", "ones", "regular"]))
    if style == "one":
        parts = [n]
    elif style == "ones":
        parts = [1] * n
    elif style == "regular":
        c = draw(st.integers(1, n))
        parts = [c] * (n // c) + ([n % c] if n % c else [])
    else:
        cuts = draw(st.lists(st.booleans(), min_size=n - 1, max_size=n - 1))
        parts = []
        cur = 1
        for b in cuts:
            if b:
                parts.append(cur)
                cur = 1
            else:
                cur += 1
        parts.append(cur)
    if allow_zero and draw(st.integers(0, 3)) == 0:
        pos = draw(st.integers(0, len(parts)))
        parts = parts[:pos] + [0] + parts[pos:]
    return parts


@st.composite
def chunks_for_shape(draw, shape, allow_zero=False):
    return [draw(chunks_for_axis(n, allow_zero)) for n in shape]


def has_zero_chunk(chunks):
    return any(len(c) > 1 and 0 in c for c in chunks)


def irregular(chunks):
    return any(len(set(c)) > 1 for c in chunks)


def nblocks(chunks):
    n = 1
    for c in chunks:
        n *= len(c)
    return n


# --------------------------------------------------------------------------
# array contents


def build_np(spec):
    shape = tuple(spec["shape"])
    dt = np.dtype(spec.get("dtype", "f8"))
    rng = np.random.default_rng(spec.get("seed", 0))
    fill = spec.get("fill", "small")
    size = int(np.prod(shape)) if shape else 1
    if fill == "arange":
        base = np.arange(size)
    elif fill == "dups":
        base = rng.integers(0, 4, size=size)
    elif fill == "small":
        base = rng.integers(-9, 10, size=size)
    elif fill == "normal":
        base = rng.normal(0, 10, size=size)
    elif fill == "big":
        base = rng.integers(-(2**20), 2**20, size=size)
    else:
        raise ValueError(fill)
    if dt.kind == "b":
        x = (np.asarray(base) % 2).astype(bool)
    elif dt.kind == "u":
        x = np.abs(np.asarray(base)).astype(dt)
    elif dt.kind == "i":
        x = np.asarray(base).astype(dt)
    elif dt.kind == "f":
        x = np.asarray(base, dtype=dt)
        if fill == "normal":
            x = x + np.asarray(rng.random(size), dtype=dt)
    elif dt.kind == "c":
        x = np.asarray(base, dtype="f8") + 1j * rng.integers(-3, 4, size=size)
        x = x.astype(dt)
    elif dt.kind == "M":
        x = (np.datetime64("2020-01-01", "ns") + np.asarray(np.abs(base), dtype="i8").astype("m8[h]")).astype(dt)
    elif dt.kind == "m":
        x = np.asarray(base, dtype="i8").astype("m8[s]").astype(dt)
    else:
        raise ValueError(dt)
    x = x.reshape(shape)
    # special values
    sp = spec.get("special") or []
    if sp and x.size and dt.kind in "fc":
        flat = x.reshape(-1)
        for j, name in enumerate(sp):
            pos = int(rng.integers(0, flat.size))
            flat[pos] = {"nan": np.nan, "inf": np.inf, "-inf": -np.inf, "-0": -0.0}[name]
    return x


def build_da(spec, x=None, name=None):
    import dask.array as da

    if x is None:
        x = build_np(spec)
    chunks = tuple(tuple(c) for c in spec["chunks"])
    kw = {}
    if name is not None:
        kw["name"] = name
    return da.from_array(x, chunks=chunks, **kw)


@st.composite
def array_spec(
    draw,
    min_dims=0,
    max_dims=3,
    max_side=6,
    min_side=0,
    dtypes=("i8", "f8"),
    allow_zero_chunks=False,
    fills=("small", "normal", "dups", "arange"),
    specials=False,
    shape=None,
):
    if shape is None:
        nd = draw(st.integers(min_dims, max_dims))
        shape = [draw(st.integers(min_side, max_side)) for _ in range(nd)]
    dt = draw(st.sampled_from(list(dtypes)))
    spec = {
        "shape": list(shape),
        "dtype": dt,
        "seed": draw(st.integers(0, 2**16)),
        "fill": draw(st.sampled_from(list(fills))),
        "chunks": draw(chunks_for_shape(shape, allow_zero_chunks)),
    }
    if specials and np.dtype(dt).kind in "fc":
        spec["special"] = draw(st.lists(st.sampled_from(["nan", "inf", "-inf", "-0"]), max_size=3))
    return spec


# --------------------------------------------------------------------------
# comparators


def describe(a):
    a = np.asarray(a)
    return f"shape={a.shape} dtype={a.dtype} values={np.array2string(a, threshold=40, edgeitems=4)}"


def same_array(d, n, *, exact=True, rtol=0.0, atol=0.0, what="result", check_dtype=True, sig=None, allow_scalar=True):
    """Raise Violation unless computed dask result ``d`` equals NumPy result ``n``
    in shape, dtype and values.  NumPy scalars and 0-d arrays are interchangeable."""
    sig = dict(sig or {})
    dn = np.asarray(d) if not np.ma.isMaskedArray(d) else d
    nn = np.asarray(n) if not np.ma.isMaskedArray(n) else n
    if dn.shape != nn.shape:
        raise Violation(f"{what}: shape {dn.shape} != numpy {nn.shape}", "shape-mismatch", **sig)
    if check_dtype and dn.dtype != nn.dtype:
        raise Violation(f"{what}: dtype {dn.dtype} != numpy {nn.dtype}", "dtype-mismatch", **sig)
    if dn.size == 0:
        return
    if exact or dn.dtype.kind not in "fc":
        if dn.dtype.kind in "fcmM" or nn.dtype.kind in "fcmM":
            ok = np.array_equal(dn, nn, equal_nan=True)
        else:
            ok = np.array_equal(dn, nn)
        if ok and dn.dtype.kind == "f":
            # -0.0 vs 0.0 is not distinguished (summation order may flip it)
            pass
    else:
        with np.errstate(all="ignore"):
            ok = np.allclose(dn, nn, rtol=rtol, atol=atol, equal_nan=True)
    if not ok:
        raise Violation(f"{what}: dask {describe(dn)} != numpy {describe(nn)}", "value-mismatch", **sig)


def sum_tolerance(x, nterms=None):
    """(rtol, atol) implied by summation order for float data x."""
    x = np.asarray(x)
    if x.dtype.kind not in "fc":
        return 0.0, 0.0
    eps = np.finfo(x.dtype).eps
    n = nterms or max(x.size, 1)
    finite = x[np.isfinite(x)] if x.size else x
    mag = float(np.sum(np.abs(finite))) if finite.size else 0.0
    return 16 * eps * n, 16 * eps * n * max(mag, 1.0)


def check_meta(d, computed, what="result", sig=None):
    """Lazy metadata agrees with the computed value (shared clause with C25)."""
    sig = dict(sig or {})
    c = np.asarray(computed)
    if any(np.isnan(s) for s in d.shape):
        return
    if tuple(d.shape) != c.shape:
        raise Violation(f"{what}: lazy shape {d.shape} != computed {c.shape}", "lazy-shape-mismatch", **sig)
    if d.dtype != c.dtype:
        raise Violation(f"{what}: lazy dtype {d.dtype} != computed {c.dtype}", "lazy-dtype-mismatch", **sig)
    for ax, ch in enumerate(d.chunks):
        if sum(ch) != d.shape[ax]:
            raise Violation(f"{what}: chunks {d.chunks} do not add up to shape {d.shape}", "chunks-sum-mismatch", **sig)


def compute(d):
    """Compute with the synchronous scheduler (values do not depend on the
    scheduler; that is C14's job)."""
    return d.compute(scheduler="sync")
