"""Abstract model of the local scheduler's data-retention state machine.

State: finished tasks, running tasks, ``cache`` (results held) and ``released``.
Transitions: fire(k) when all dependencies are finished and a worker is free;
complete(k): k's result enters the cache; every dependency whose needed
dependents have all completed is released unless it was requested.

The model is written from the statement of C03 (hold a result until every
dependent that needs it has finished; never release a requested result; every
other computed result is released by the end).  It shares no code with dask.
"""
from __future__ import annotations


class Model:
    def __init__(self, deps, needed, requested, initial_cache=()):
        """deps: {node: set(nodes)} direct dependencies; needed: set of nodes the
        request needs; requested: set of requested nodes; initial_cache: nodes
        whose value is available before any task runs (literal data)."""
        self.deps = {k: set(v) & set(needed) for k, v in deps.items() if k in needed}
        self.needed = set(needed)
        self.requested = set(requested)
        self.dependents = {k: set() for k in self.needed}
        for k, ds in self.deps.items():
            for d in ds:
                self.dependents[d].add(k)
        self.finished = set(initial_cache) & self.needed
        self.running = set()
        self.cache = set(self.finished)
        self.released = set()
        self.remaining = {k: set(v) for k, v in self.dependents.items()}

    def ready(self):
        return {
            k
            for k in self.needed
            if k not in self.finished and k not in self.running and self.deps[k] <= self.finished
        }

    def fire(self, k):
        if not self.deps[k] <= self.cache:
            raise AssertionError(f"model: firing {k} but dependencies {self.deps[k] - self.cache} are not held")
        self.running.add(k)

    def complete(self, k):
        self.running.discard(k)
        self.finished.add(k)
        self.cache.add(k)
        for d in self.deps[k]:
            self.remaining[d].discard(k)
            if not self.remaining[d] and d not in self.requested and d in self.cache:
                self.cache.discard(d)
                self.released.add(d)

    def check_invariants(self):
        # every finished result with an unfinished needed dependent is held
        for f in self.finished:
            if self.remaining[f] and f not in self.cache:
                raise AssertionError(f"model invariant: {f} released while {self.remaining[f]} still need it")
        if self.requested & self.released:
            raise AssertionError("model invariant: requested result released")

    def done(self):
        return self.finished == self.needed

    def key(self):
        return (frozenset(self.finished), frozenset(self.running))

    def clone(self):
        m = Model.__new__(Model)
        m.deps = self.deps
        m.needed = self.needed
        m.requested = self.requested
        m.dependents = self.dependents
        m.finished = set(self.finished)
        m.running = set(self.running)
        m.cache = set(self.cache)
        m.released = set(self.released)
        m.remaining = {k: set(v) for k, v in self.remaining.items()}
        return m


def explore(model, workers):
    """Exhaustive exploration of the model under `workers` workers.  Returns
    (states, transitions).  Raises AssertionError on an invariant violation or
    if a terminal state is not the expected final state."""
    seen = {model.key()}
    stack = [model]
    transitions = 0
    while stack:
        m = stack.pop()
        m.check_invariants()
        succ = []
        if len(m.running) < workers:
            for k in m.ready():
                n = m.clone()
                n.fire(k)
                succ.append(n)
        for k in list(m.running):
            n = m.clone()
            n.complete(k)
            succ.append(n)
        if not succ:
            if not m.done():
                raise AssertionError("model: stuck before all needed tasks finished")
            if m.cache != m.requested:
                raise AssertionError(f"model: final cache {m.cache} != requested {m.requested}")
            if m.released != m.needed - m.requested:
                raise AssertionError("model: final released set != needed - requested")
        for n in succ:
            transitions += 1
            k = n.key()
            if k not in seen:
                seen.add(k)
                stack.append(n)
    return len(seen), transitions
