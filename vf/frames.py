"""Shared helpers for the dataframe properties (C36-C47).

Frame spec (plain JSON):

    {"nrows": 12, "seed": 3,
     "columns": [{"name": "a", "kind": "int"}, {"name": "b", "kind": "float", "nan": 0.3}, ...],
     "index": {"kind": "range" | "sorted_unique" | "sorted_dups" | "unsorted" | "datetime" | "str", "name": None},
     "partition": {"how": "npartitions", "n": 3, "sort": true}
                | {"how": "chunksize", "n": 4}
                | {"how": "cuts", "cuts": [0, 3, 3, 9], "divisions": true|false}}   # from_map pieces, may be empty

Column kinds: int, float (with NaN), bool, str (python-backed pandas ``str``
dtype), obj (object strings), datetime, cat (categorical, optional unused
categories, ordered flag), Int64, boolean, Float64 (nullable), key (small-range
ints with heavy duplicates), keyna (float keys with NaN).

``build_pdf(spec)`` is a pure function of the spec; ``build_ddf(spec, pdf)``
partitions it as described.  Run with DASK_DATAFRAME__CONVERT_STRING=False (set
by ./check) and the pyarrow stub on PYTHONPATH.
"""
from __future__ import annotations

import numpy as np
import pandas as pd
from hypothesis import strategies as st

from vf.core import Violation

WORDS = ["a", "b", "ab", "", "foo", "Bar", "baz", "x,y", 'q"t', "zz", "A", "hello world"]


def build_column(col, n, rng):
    k = col["kind"]
    nanp = col.get("nan", 0.0)
    if k == "int":
        return rng.integers(-50, 50, size=n).astype("int64")
    if k == "key":
        return rng.integers(0, col.get("card", 4), size=n).astype("int64")
    if k == "keyna":
        x = rng.integers(0, col.get("card", 4), size=n).astype("float64")
        x[rng.random(n) < (nanp or 0.2)] = np.nan
        return x
    if k == "float":
        x = np.round(rng.normal(0, 10, size=n), 3)
        x[rng.random(n) < nanp] = np.nan
        return x
    if k == "bool":
        return rng.integers(0, 2, size=n).astype(bool)
    if k in ("str", "obj"):
        vals = [WORDS[i] for i in rng.integers(0, col.get("card", len(WORDS)), size=n)]
        s = pd.Series(vals, dtype="str" if k == "str" else object)
        if nanp:
            s[rng.random(n) < nanp] = np.nan
        return s.values if k == "obj" else s.array
    if k == "datetime":
        base = np.datetime64("2021-01-01", "ns")
        x = base + rng.integers(0, 200, size=n).astype("m8[h]").astype("m8[ns]")
        x = x.astype("M8[ns]")
        if nanp:
            x[rng.random(n) < nanp] = np.datetime64("NaT")
        return x
    if k == "cat":
        cats = ["u", "v", "w", "unused"][: col.get("ncat", 4)]
        codes = rng.integers(-1 if nanp else 0, max(len(cats) - 1, 1), size=n)
        return pd.Categorical.from_codes(codes, categories=cats, ordered=bool(col.get("ordered")))
    if k in ("Int64", "Float64", "boolean"):
        if k == "Int64":
            base = pd.array(rng.integers(-20, 20, size=n), dtype="Int64")
        elif k == "Float64":
            base = pd.array(np.round(rng.normal(0, 5, size=n), 2), dtype="Float64")
        else:
            base = pd.array(rng.integers(0, 2, size=n).astype(bool), dtype="boolean")
        if nanp:
            base[rng.random(n) < nanp] = pd.NA
        return base
    raise ValueError(k)


def build_index(ix, n, rng):
    k = ix.get("kind", "range")
    name = ix.get("name")
    if k == "range":
        return pd.RangeIndex(n, name=name)
    if k == "sorted_unique":
        return pd.Index(np.cumsum(rng.integers(1, 4, size=n)), name=name)
    if k == "sorted_dups":
        return pd.Index(np.sort(rng.integers(0, max(n // 2, 1), size=n)), name=name)
    if k == "unsorted":
        return pd.Index(rng.integers(0, max(n, 1), size=n), name=name)
    if k == "datetime":
        return pd.DatetimeIndex(np.datetime64("2021-01-01", "ns") + np.cumsum(rng.integers(0, 3, size=n)).astype("m8[h]").astype("m8[ns]"), name=name)
    if k == "datetime_unique":
        return pd.DatetimeIndex(np.datetime64("2021-01-01", "ns") + np.cumsum(rng.integers(1, 3, size=n)).astype("m8[h]").astype("m8[ns]"), name=name)
    if k == "str":
        return pd.Index(sorted(f"r{int(i):03d}" for i in rng.integers(0, max(n, 1), size=n)), name=name)
    raise ValueError(k)


def build_pdf(spec):
    n = spec["nrows"]
    rng = np.random.default_rng(spec.get("seed", 0))
    data = {}
    for col in spec["columns"]:
        data[col["name"]] = build_column(col, n, rng)
    idx = build_index(spec.get("index", {"kind": "range"}), n, rng)
    return pd.DataFrame(data, index=idx)


def build_ddf(spec, pdf=None):
    import dask.dataframe as dd

    if pdf is None:
        pdf = build_pdf(spec)
    p = spec.get("partition", {"how": "npartitions", "n": 2})
    how = p["how"]
    if how == "npartitions":
        return dd.from_pandas(pdf, npartitions=p["n"], sort=p.get("sort", True))
    if how == "chunksize":
        return dd.from_pandas(pdf, chunksize=p["n"], sort=p.get("sort", True))
    if how == "cuts":
        cuts = [0] + sorted(min(max(c, 0), len(pdf)) for c in p["cuts"]) + [len(pdf)]
        pieces = [pdf.iloc[a:b] for a, b in zip(cuts, cuts[1:])]
        divisions = None
        if p.get("divisions") and pdf.index.is_monotonic_increasing and len(pdf):
            # only valid if equal index values do not straddle a cut and no piece is empty
            ok = all(len(x) for x in pieces) and all(
                pieces[i].index[-1] < pieces[i + 1].index[0] for i in range(len(pieces) - 1)
            )
            if ok:
                divisions = tuple(x.index[0] for x in pieces) + (pieces[-1].index[-1],)
        return dd.from_map(_Piece(pieces), list(range(len(pieces))), meta=pdf.iloc[:0], divisions=divisions)
    raise ValueError(how)


class _Piece:
    """Callable returning the i-th piece (picklable; module level)."""

    def __init__(self, pieces):
        self.pieces = pieces

    def __call__(self, i):
        return self.pieces[i]


# --------------------------------------------------------------------------
# strategies

ALL_KINDS = ["int", "float", "bool", "str", "obj", "datetime", "cat", "Int64", "boolean", "Float64", "key", "keyna"]


@st.composite
def column_spec(draw, name, kinds=ALL_KINDS):
    k = draw(st.sampled_from(list(kinds)))
    col = {"name": name, "kind": k}
    if k in ("float", "str", "obj", "datetime", "cat", "Int64", "Float64", "boolean", "keyna"):
        col["nan"] = draw(st.sampled_from([0.0, 0.2, 0.5]))
    if k in ("key", "keyna"):
        col["card"] = draw(st.sampled_from([2, 3, 6]))
    if k == "cat":
        col["ncat"] = draw(st.integers(2, 4))
        col["ordered"] = draw(st.booleans())
    return col


@st.composite
def partition_spec(draw, nrows, allow_cuts=True):
    how = draw(st.sampled_from(["npartitions", "npartitions", "chunksize", "cuts"] if allow_cuts else ["npartitions", "chunksize"]))
    if how == "npartitions":
        return {"how": how, "n": draw(st.integers(1, 6)), "sort": True}
    if how == "chunksize":
        return {"how": how, "n": draw(st.integers(1, max(nrows, 1)))}
    return {
        "how": "cuts",
        "cuts": draw(st.lists(st.integers(0, max(nrows, 0)), min_size=0, max_size=5)),
        "divisions": draw(st.booleans()),
    }


@st.composite
def frame_spec(
    draw,
    min_rows=0,
    max_rows=30,
    kinds=ALL_KINDS,
    min_cols=1,
    max_cols=4,
    index_kinds=("range", "sorted_unique", "sorted_dups", "unsorted", "datetime", "str"),
    allow_cuts=True,
    required=None,
):
    n = draw(st.integers(min_rows, max_rows))
    cols = []
    names = ["a", "b", "c", "d", "e", "f"]
    for r in required or []:
        cols.append(dict(r))
    ncols = draw(st.integers(min_cols, max_cols))
    for i in range(ncols):
        nm = names[len(cols)]
        cols.append(draw(column_spec(nm, kinds)))
    ix = {"kind": draw(st.sampled_from(list(index_kinds))), "name": draw(st.sampled_from([None, "idx"]))}
    part = draw(partition_spec(n, allow_cuts))
    if ix["kind"] == "unsorted" and part["how"] != "cuts":
        part["sort"] = draw(st.booleans()) if part["how"] == "npartitions" else part.get("sort", True)
    return {"nrows": n, "seed": draw(st.integers(0, 2**16)), "columns": cols, "index": ix, "partition": part}


# --------------------------------------------------------------------------
# comparators


def _sig(sig):
    return dict(sig or {})


def assert_eq(got, want, *, what="result", check_index=True, check_order=True, rtol=1e-9, sig=None, check_names=True, check_dtype=True, check_categorical=True):
    """Compare a computed dask result with the pandas reference."""
    import pandas.testing as tm

    sig = _sig(sig)
    if isinstance(want, pd.DataFrame):
        if not isinstance(got, pd.DataFrame):
            raise Violation(f"{what}: expected DataFrame, got {type(got).__name__}", "type-mismatch", **sig)
        if list(got.columns) != list(want.columns):
            raise Violation(f"{what}: columns {list(got.columns)} != pandas {list(want.columns)}", "columns-mismatch", **sig)
    elif isinstance(want, pd.Series):
        if not isinstance(got, pd.Series):
            raise Violation(f"{what}: expected Series, got {type(got).__name__}", "type-mismatch", **sig)
    elif isinstance(want, pd.Index):
        if not isinstance(got, pd.Index):
            raise Violation(f"{what}: expected Index, got {type(got).__name__}", "type-mismatch", **sig)
    else:
        # scalar
        ok = _scalar_eq(got, want, rtol)
        if not ok:
            raise Violation(f"{what}: scalar {got!r} != pandas {want!r}", "value-mismatch", **sig)
        return
    g, w = got, want
    if not check_order:
        g, w = canonical_sort(g, keep_index=check_index), canonical_sort(w, keep_index=check_index)
    if not check_index and not isinstance(w, pd.Index):
        g = g.reset_index(drop=True)
        w = w.reset_index(drop=True)
    try:
        if isinstance(w, pd.DataFrame):
            tm.assert_frame_equal(g, w, check_exact=False, rtol=rtol, atol=1e-12, check_names=check_names, check_dtype=check_dtype, check_categorical=check_categorical, check_freq=False)
        elif isinstance(w, pd.Series):
            tm.assert_series_equal(g, w, check_exact=False, rtol=rtol, atol=1e-12, check_names=check_names, check_dtype=check_dtype, check_categorical=check_categorical, check_freq=False)
        else:
            tm.assert_index_equal(g, w, check_names=check_names, exact=check_dtype)
    except AssertionError as e:
        sym = "value-mismatch"
        msg = str(e)
        if "dtype" in msg.lower() and "values are different" not in msg:
            sym = "dtype-mismatch"
        if "index" in msg.lower().split("\n")[0]:
            sym = "index-mismatch"
        raise Violation(f"{what}: {msg[:600]}\n dask:\n{_show(got)}\n pandas:\n{_show(want)}", sym, **sig) from None


def _show(x):
    try:
        return x.to_string(max_rows=12)[:800]
    except Exception:  # noqa: BLE001
        return repr(x)[:800]


def _scalar_eq(a, b, rtol):
    try:
        if pd.isna(a) and pd.isna(b):
            return True
    except (TypeError, ValueError):
        pass
    if isinstance(b, (float, np.floating)) or isinstance(a, (float, np.floating)):
        try:
            return bool(np.isclose(float(a), float(b), rtol=rtol, atol=1e-12, equal_nan=True))
        except (TypeError, ValueError):
            return False
    try:
        return bool(a == b)
    except Exception:  # noqa: BLE001
        return False


def canonical_sort(obj, keep_index=True):
    """Stable canonical row order (all columns, NA last) for multiset comparison."""
    if isinstance(obj, pd.Index):
        return obj.sort_values(na_position="last")
    if isinstance(obj, pd.Series):
        df = obj.to_frame(name="__v__")
    else:
        df = obj.copy()
        df.columns = [f"__c{i}__" for i in range(df.shape[1])]
    if keep_index:
        df = df.reset_index()
        df.columns = [f"__k{i}__" for i in range(df.shape[1])]
    keys = []
    for c in df.columns:
        s = df[c]
        if isinstance(s.dtype, pd.CategoricalDtype):
            s = s.astype(object)
        keys.append(s.map(lambda v: (1, "") if _isna(v) else (0, repr(v) if not isinstance(v, (int, float, np.number)) else "")).rename(c + "t"))
    order = pd.DataFrame({c: df[c] for c in df.columns})
    # sort by string form to be robust to mixed types
    skey = order.apply(lambda col: col.map(lambda v: ("~" if _isna(v) else " ") + _fmt(v)))
    idx = np.lexsort([skey[c].values for c in reversed(list(skey.columns))]) if len(skey.columns) else np.arange(len(df))
    out = obj.iloc[idx] if not isinstance(obj, pd.Index) else obj[idx]
    return out


def _isna(v):
    try:
        r = pd.isna(v)
        return bool(r) if not hasattr(r, "__len__") else False
    except (TypeError, ValueError):
        return False


def _fmt(v):
    if isinstance(v, (int, np.integer)):
        return f"{int(v):+021d}"
    if isinstance(v, (float, np.floating)):
        return f"{float(v):+030.9f}"
    return repr(v)


def compute(x):
    return x.compute(scheduler="sync")
