"""Generators of task-graph specs (see vf.graphs for the spec language)."""
from __future__ import annotations

import itertools

from hypothesis import strategies as st

FN = ["f0", "f1", "f2", "f3"]


def keyspec(i, flavour):
    if flavour == "str":
        return f"k{i}"
    if flavour == "tuple":
        return ["x", i // 2, i % 2]
    if flavour == "int":
        return 1000 + i
    if flavour == "float":
        return 1000.5 + i
    if flavour in ("dashed", "collide"):
        # "x-1" style names as collections produce them; key_split / the default fused-key renamer work on these
        return f"{'abcdefghijklmnop'[i % 16]}{i // 16 or ''}-1"  # a-1 ... p-1, a1-1, ...: pairwise distinct
    if flavour == "mixed":
        return [f"k{i}", ["x", i, 0], 1000 + i, 1000.5 + i, f"k{i}"][i % 5]
    raise ValueError(flavour)


# --------------------------------------------------------------------------
# exhaustive small DAGs


def node_options(i):
    """All (kind, deps) choices for node i over nodes 0..i-1."""
    opts = []
    for r in range(0, i + 1):
        for deps in itertools.combinations(range(i), r):
            if r == 0:
                opts.append(("data", deps))
                opts.append(("task", deps))
            elif r == 1:
                opts.append(("task", deps))
                opts.append(("alias", deps))
                opts.append(("list", deps))
            else:
                opts.append(("task", deps))
                opts.append(("list", deps))
    return opts


def body_for(kind, deps, i):
    if kind == "data":
        return {"lit": f"L{i}"}
    if kind == "alias":
        return {"ref": deps[0]}
    if kind == "list":
        return {"list": [{"ref": d} for d in deps]}
    args = [{"ref": d} for d in deps] or [{"lit": i}]
    return {"call": FN[i % len(FN)], "args": args}


def all_dags(n, kinds=("data", "task", "alias", "list")):
    """Every DAG on exactly n nodes in fixed topological order."""
    per = [[o for o in node_options(i) if o[0] in kinds] for i in range(n)]
    for combo in itertools.product(*per):
        yield [{"kind": k, "deps": list(d)} for k, d in combo]


def dag_spec(shape, style="legacy", keyflavour="str"):
    nodes = []
    for i, s in enumerate(shape):
        nodes.append({"k": keyspec(i, keyflavour), "body": body_for(s["kind"], s["deps"], i)})
    if keyflavour == "collide" and len(nodes) >= 3:
        # one key is spelled like the name the default renamer gives to a fused chain of two OTHER nodes
        # (fusing "a-1" <- "b-1" yields "a-b-1"): renaming must not clobber it
        m = len(nodes) - 1
        i, j = [x for x in range(len(nodes)) if x != m][:2]
        nodes[m]["k"] = f"{'abcdefghijklmnop'[i]}-{'abcdefghijklmnop'[j]}-1"
    return {"style": style, "nodes": nodes}


def all_requests(n, nested=False):
    """All non-empty subsets as flat lists, plus single keys; optionally a few nestings."""
    for i in range(n):
        yield i
    for r in range(1, n + 1):
        for c in itertools.combinations(range(n), r):
            yield list(c)
    if nested and n >= 2:
        yield [[n - 1], 0]
        yield [[0, n - 1], [n - 1]]
        yield [[[0]], []]


# --------------------------------------------------------------------------
# random rich graphs (hypothesis)

_plain = st.one_of(
    st.integers(-5, 50),
    st.sampled_from(["La", "Lb", "", "k99", "Lx"]),
    st.none(),
    st.booleans().map(lambda b: "Ltrue" if b else "Lfalse"),
    st.sampled_from([0.5, -1.25, 1e10]),
)

_hashable_lit = st.one_of(st.integers(-5, 50), st.sampled_from(["La", "Lb", "Lc"]))


def expr_strategy(navail, style, depth=3, allow_kwargs=None, allow_rawdict=True, ext=(), extras=False, hashable_nodes=()):
    """Expression over references to nodes 0..navail-1."""
    if allow_kwargs is None:
        allow_kwargs = style == "taskspec"
    leaves = [_plain.map(lambda v: {"lit": v})]
    if navail:
        leaves.append(st.integers(0, navail - 1).map(lambda i: {"ref": i}))
        leaves.append(st.integers(0, navail - 1).map(lambda i: {"ref": i}))
    if ext:
        leaves.append(st.sampled_from(list(ext)).map(lambda e: {"ext": e}))
    leaves.append(st.lists(st.one_of(st.integers(0, 9), st.sampled_from(["La", "k99"])), max_size=3).map(lambda v: {"tuplit": v}))
    leaves.append(st.lists(st.integers(0, 9), max_size=3).map(lambda v: {"quote": v}))
    leaf = st.one_of(*leaves)

    ts_leaves = [_plain.map(lambda v: {"lit": v})]
    if navail:
        ts_leaves.append(st.integers(0, navail - 1).map(lambda i: {"ref": i}))
    ts_children = st.recursive(
        st.one_of(*ts_leaves),
        lambda ch: st.one_of(
            st.builds(lambda f, a: {"call": f, "args": a}, st.sampled_from(FN), st.lists(ch, max_size=2)),
            st.lists(ch, max_size=2).map(lambda v: {"list": v}),
        ),
        max_leaves=3,
    )

    def extend(children):
        opts = [
            st.builds(
                lambda f, a: {"call": f, "args": a},
                st.sampled_from(FN),
                st.lists(children, max_size=3),
            ),
            st.lists(children, max_size=3).map(lambda v: {"list": v}),
            st.lists(st.tuples(_hashable_lit, children), max_size=3, unique_by=lambda kv: repr(kv[0])).map(
                lambda kv: {"dict": [[k, v] for k, v in kv]}
            ),
        ]
        if style == "taskspec":
            # Non-call tuples holding references are only well defined as explicit
            # Tuple containers: the legacy spec (docs/source/spec.rst, C08's
            # statement) evaluates lists and dicts elementwise, not tuples, and
            # dask's legacy dependency finder and converter disagree on them.
            opts.append(st.lists(children, min_size=1, max_size=3).map(lambda v: {"tuple": v}))
        if extras:
            # namedtuple instances (both styles) and raw dict arguments
            opts.append(st.tuples(children, children).map(lambda ab: {"nt": [ab[0], ab[1]]}))
            if style == "taskspec":
                opts.append(
                    st.lists(st.tuples(_hashable_lit, children), max_size=3, unique_by=lambda kv: repr(kv[0])).map(
                        lambda kv: {"rawdict": [[k, v] for k, v in kv]}
                    )
                )
                elems = [_hashable_lit.map(lambda v: {"lit": v})]
                if hashable_nodes:
                    elems.append(st.sampled_from(list(hashable_nodes)).map(lambda i: {"ref": i}))
                opts.append(st.lists(st.one_of(*elems), max_size=3).map(lambda v: {"set": v}))
            else:
                opts.append(
                    st.lists(st.tuples(_hashable_lit, _hashable_lit), max_size=3, unique_by=lambda kv: repr(kv[0])).map(
                        lambda kv: {"rawdict": [[k, {"lit": v}] for k, v in kv]}
                    )
                )
                # a raw dict that is a DIRECT argument of a legacy tuple task and whose values are
                # task objects / TaskRefs (only direct arguments are wrapped in Dict by the converter)
                rd = st.lists(st.tuples(_hashable_lit, ts_children), min_size=1, max_size=3, unique_by=lambda kv: repr(kv[0])).map(
                    lambda kv: {"rawdict_ts": [[k, v] for k, v in kv]}
                )
                opts.append(
                    st.builds(
                        lambda f, a, d, b: {"call": f, "args": a + [d] + b},
                        st.sampled_from(FN),
                        st.lists(children, max_size=1),
                        rd,
                        st.lists(children, max_size=1),
                    )
                )
        if allow_kwargs:
            opts.append(
                st.builds(
                    lambda f, a, kw: {"call": f, "args": a, "kwargs": kw},
                    st.sampled_from(FN),
                    st.lists(children, max_size=2),
                    st.dictionaries(st.sampled_from(["p", "q", "r"]), children, min_size=1, max_size=2),
                )
            )
        return st.one_of(*opts)

    return st.recursive(leaf, extend, max_leaves=6)


@st.composite
def rich_graph(draw, min_nodes=1, max_nodes=8, styles=("legacy", "taskspec"), with_external=False, extras=False):
    n = draw(st.integers(min_nodes, max_nodes))
    style = draw(st.sampled_from(list(styles)))
    flavour = draw(st.sampled_from(["str", "str", "tuple", "int", "float", "mixed"]))
    ext = {}
    if with_external and draw(st.booleans()):
        ext = {"a": draw(_plain), "b": draw(_plain)}
        # falsy external values are outside the stated domain (see DESIGN 6)
        ext = {k: (v if v else "Lext") for k, v in ext.items()}
    nodes = []
    hashable = []
    for i in range(n):
        es = lambda: expr_strategy(i, style, ext=tuple(ext), extras=extras, hashable_nodes=tuple(hashable))  # noqa: E731
        kind = draw(st.sampled_from(["task", "task", "task", "data", "alias", "list", "expr"]))
        if kind == "data" or (kind in ("alias", "list") and i == 0):
            body = {"lit": draw(_plain)}
        elif kind == "alias":
            body = {"ref": draw(st.integers(0, i - 1))}
        elif kind == "list":
            body = {"list": [{"ref": j} for j in draw(st.lists(st.integers(0, i - 1), min_size=1, max_size=3))]}
        elif kind == "task":
            args = draw(st.lists(es(), max_size=3))
            body = {"call": draw(st.sampled_from(FN)), "args": args}
            if style == "taskspec" and draw(st.booleans()):
                body["kwargs"] = draw(
                    st.dictionaries(st.sampled_from(["p", "q"]), es(), max_size=2)
                )
        else:
            body = draw(es())
        if "lit" in body and isinstance(body["lit"], (int, str)) and not isinstance(body["lit"], bool):
            hashable.append(i)
        nodes.append({"k": keyspec(i, flavour), "body": body})
    spec = {"style": style, "nodes": nodes}
    if ext:
        spec["external"] = ext
    return spec


@st.composite
def request_for(draw, n, max_depth=3):
    leaf = st.integers(0, n - 1)
    if draw(st.integers(0, 3)) == 0:
        return draw(leaf)
    return draw(
        st.recursive(
            st.lists(leaf, min_size=0, max_size=4),
            lambda ch: st.lists(st.one_of(leaf, ch), min_size=1, max_size=3),
            max_leaves=6,
        )
    )


@st.composite
def shape_graph(draw, min_nodes=2, max_nodes=12):
    """Random DAG shapes with plain positional bodies (cheap; used for schedules)."""
    n = draw(st.integers(min_nodes, max_nodes))
    density = draw(st.sampled_from([0.15, 0.3, 0.5, 0.8]))
    shape = []
    for i in range(n):
        bits = draw(st.lists(st.floats(0, 1), min_size=i, max_size=i))
        deps = [j for j, b in enumerate(bits) if b < density]
        if not deps:
            kind = draw(st.sampled_from(["data", "task", "task"]))
        elif len(deps) == 1:
            kind = draw(st.sampled_from(["task", "task", "alias", "list"]))
        else:
            kind = draw(st.sampled_from(["task", "task", "task", "list"]))
        shape.append({"kind": kind, "deps": deps})
    style = draw(st.sampled_from(["legacy", "taskspec"]))
    flavour = draw(st.sampled_from(["str", "tuple", "mixed", "float", "dashed", "collide"]))
    return dag_spec(shape, style, flavour)


def mixed(g, which=("list", "ref")):
    """Task objects for the call nodes, plain legacy values for alias / list (/ data) nodes: what e.g.
    da.store builds (a plain list of keys on top of a graph of Task objects)."""
    import copy

    g = copy.deepcopy(g)
    g["style"] = "taskspec"
    for n in g["nodes"]:
        if any(k in n["body"] for k in which):
            n["style"] = "legacy"
    g["mixed"] = True
    return g
