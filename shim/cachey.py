"""API stub for cachey (absent in this sandbox): the subset dask.cache.Cache uses.

Unbounded store; ``put`` keeps everything.  dask.cache reads ``cache.data`` and
calls ``cache.put(key, value, cost=, nbytes=)`` and ``cachey.nbytes``.
"""
import sys


def nbytes(o):
    try:
        return int(o.nbytes)
    except Exception:
        return sys.getsizeof(o)


class Cache:
    def __init__(self, available_bytes=None, limit=0, *a, **k):
        self.available_bytes = available_bytes
        self.data = {}
        self.log = []

    def put(self, key, value, cost=1, nbytes=None):
        self.log.append(key)
        self.data[key] = value

    def get(self, key, default=None):
        return self.data.get(key, default)

    def clear(self):
        self.data.clear()
