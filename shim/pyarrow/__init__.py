"""Import stub for pyarrow (absent in this sandbox, not in the wheelhouse).

It exists only so that ``import dask.dataframe`` succeeds.  It adds no
behaviour: every attribute resolves to an empty placeholder class, so any code
path that really needs Arrow fails.  It hides itself from pandas (raises
ImportError when the importer is pandas.*), so pandas behaves exactly as if
pyarrow were not installed (HAS_PYARROW False, python-backed str dtype).
"""
import sys as _sys
import types as _types


def _importer_is_pandas():
    f = _sys._getframe(1)
    while f is not None:
        name = f.f_globals.get("__name__", "")
        if name == "pandas" or name.startswith("pandas."):
            return True
        f = f.f_back
    return False


if _importer_is_pandas():
    raise ImportError("pyarrow stub is hidden from pandas")

__version__ = "16.0.0"


class _Placeholder:
    """Inert object: constructible (dask builds type tables at import time),
    but has no attributes or methods, so any real use raises AttributeError."""

    def __init__(self, *a, **k):
        pass


def _make_getattr(modname):
    cache = {}

    def __getattr__(name):
        if name.startswith("__") and name.endswith("__"):
            raise AttributeError(name)
        if name not in cache:
            cache[name] = type(name, (_Placeholder,), {"__module__": modname})
        return cache[name]

    return __getattr__


__getattr__ = _make_getattr(__name__)

for _sub in ("fs", "compute", "dataset", "parquet", "lib", "types"):
    _m = _types.ModuleType(__name__ + "." + _sub)
    _m.__getattr__ = _make_getattr(_m.__name__)
    _sys.modules[_m.__name__] = _m
    globals()[_sub] = _m
